// Kani harnesses for rbx_binary (included into the crate by the guarded hook in
// src/lib.rs, so crate-private items are reachable). Obligation ids refer to
// /verif/DESIGN.md section 5.
use crate::core::*;
use crate::types::Type;
use std::convert::TryFrom;

// ---------------------------------------------------------------- K1: zigzag
// docs/binary.md "Integer Transformations": v >= 0 -> 2v ; v < 0 -> -2v - 1
// (computed modulo 2^32, i.e. on the bit pattern).
#[kani::proof]
fn k1_zigzag_i32() {
    let v: i32 = kani::any();
    let t = transform_i32(v);
    let spec = if v >= 0 {
        (v as u32).wrapping_mul(2)
    } else {
        (v as u32).wrapping_neg().wrapping_mul(2).wrapping_sub(1)
    };
    assert!(t as u32 == spec);
    assert!(untransform_i32(t) == v);
    assert!(transform_i32(untransform_i32(v)) == v);
    kani::cover!(v < 0 && t > 0);
}

#[kani::proof]
fn k1_zigzag_i64() {
    let v: i64 = kani::any();
    let t = transform_i64(v);
    let spec = if v >= 0 {
        (v as u64).wrapping_mul(2)
    } else {
        (v as u64).wrapping_neg().wrapping_mul(2).wrapping_sub(1)
    };
    assert!(t as u64 == spec);
    assert!(untransform_i64(t) == v);
    assert!(transform_i64(untransform_i64(v)) == v);
    kani::cover!(v < 0 && t > 0);
}

// ------------------------------------------------- K2: interleaved arrays
// Spec (docs/binary.md "Byte Interleaving"): for N values of width W the blob
// holds byte j of value i (big endian, after the value's transformation) at
// offset i + N*j.
macro_rules! interleave_harness {
    ($name:ident, $n:expr, $w:expr, $ty:ty, $write:ident, $read:ident, $enc:expr, $iter:expr) => {
        #[kani::proof]
        #[kani::unwind(34)]
        fn $name() {
            const N: usize = $n;
            const W: usize = $w;
            let xs: [$ty; N] = kani::any();
            let mut out: Vec<u8> = Vec::with_capacity(N * W);
            let it = $iter;
            (&mut out).$write(it(&xs)).unwrap();
            assert!(out.len() == N * W);
            let enc = $enc;
            let mut i = 0;
            while i < N {
                let be: [u8; W] = enc(xs[i]);
                let mut j = 0;
                while j < W {
                    assert!(out[i + N * j] == be[j]);
                    j += 1;
                }
                i += 1;
            }
            let mut back: [$ty; N] = [Default::default(); N];
            let mut rd: &[u8] = &out[..];
            rd.$read(&mut back).unwrap();
            assert!(rd.len() == 0);
            let mut i = 0;
            while i < N {
                assert!(back[i] == xs[i]);
                i += 1;
            }
            kani::cover!(N > 1 && xs[0] != xs[N - 1]);
            std::mem::forget(out);
        }
    };
}

interleave_harness!(k2_i32_array_n2, 2, 4, i32, write_interleaved_i32_array, read_interleaved_i32_array,
    |v: i32| transform_i32(v).to_be_bytes(), |xs: &[i32; 2]| xs.to_vec().into_iter());
interleave_harness!(k2_i32_array_n3, 3, 4, i32, write_interleaved_i32_array, read_interleaved_i32_array,
    |v: i32| transform_i32(v).to_be_bytes(), |xs: &[i32; 3]| xs.to_vec().into_iter());
interleave_harness!(k2_i64_array_n2, 2, 8, i64, write_interleaved_i64_array, read_interleaved_i64_array,
    |v: i64| transform_i64(v).to_be_bytes(), |xs: &[i64; 2]| xs.to_vec().into_iter());
interleave_harness!(k2_i64_array_n3, 3, 8, i64, write_interleaved_i64_array, read_interleaved_i64_array,
    |v: i64| transform_i64(v).to_be_bytes(), |xs: &[i64; 3]| xs.to_vec().into_iter());

// u32 arrays take a slice rather than an iterator
macro_rules! u32_harness {
    ($name:ident, $n:expr) => {
        #[kani::proof]
        #[kani::unwind(18)]
        fn $name() {
            const N: usize = $n;
            let xs: [u32; N] = kani::any();
            let mut out: Vec<u8> = Vec::with_capacity(N * 4);
            (&mut out).write_interleaved_u32_array(&xs).unwrap();
            assert!(out.len() == N * 4);
            let mut i = 0;
            while i < N {
                let be = xs[i].to_be_bytes();
                let mut j = 0;
                while j < 4 {
                    assert!(out[i + N * j] == be[j]);
                    j += 1;
                }
                i += 1;
            }
            let mut back = [0u32; N];
            let mut rd: &[u8] = &out[..];
            rd.read_interleaved_u32_array(&mut back).unwrap();
            assert!(rd.len() == 0);
            let mut i = 0;
            while i < N {
                assert!(back[i] == xs[i]);
                i += 1;
            }
            kani::cover!(N > 1 && xs[0] != xs[N - 1]);
            std::mem::forget(out);
        }
    };
}
u32_harness!(k2_u32_array_n2, 2);
u32_harness!(k2_u32_array_n3, 3);

// f32 arrays: compared as bit patterns (NaN payloads, -0, subnormals inside);
// spec "Float Format": sign bit rotated to the least significant position.
macro_rules! f32_harness {
    ($name:ident, $n:expr) => {
        #[kani::proof]
        #[kani::unwind(18)]
        fn $name() {
            const N: usize = $n;
            let bits: [u32; N] = kani::any();
            let mut out: Vec<u8> = Vec::with_capacity(N * 4);
            (&mut out)
                .write_interleaved_f32_array(bits.to_vec().into_iter().map(f32::from_bits))
                .unwrap();
            assert!(out.len() == N * 4);
            let mut i = 0;
            while i < N {
                let b = bits[i];
                let spec = (b << 1) | (b >> 31);
                let be = spec.to_be_bytes();
                let mut j = 0;
                while j < 4 {
                    assert!(out[i + N * j] == be[j]);
                    j += 1;
                }
                i += 1;
            }
            let mut back = [0f32; N];
            let mut rd: &[u8] = &out[..];
            rd.read_interleaved_f32_array(&mut back).unwrap();
            assert!(rd.len() == 0);
            let mut i = 0;
            while i < N {
                assert!(back[i].to_bits() == bits[i]);
                i += 1;
            }
            kani::cover!(N > 1 && bits[0] != bits[N - 1]);
            std::mem::forget(out);
        }
    };
}
f32_harness!(k2_f32_array_n2, 2);
f32_harness!(k2_f32_array_n3, 3);

// ------------------------------------------------- K3: referent arrays
// Spec "Referent": values are delta coded (first against 0) then written as an
// interleaved, transformed i32 array.  Bound: -1 <= r < 2^30 (dense file ids).
macro_rules! referent_harness {
    ($name:ident, $n:expr) => {
        #[kani::proof]
        #[kani::unwind(18)]
        fn $name() {
            const N: usize = $n;
            let xs: [i32; N] = kani::any();
            let mut i = 0;
            while i < N {
                kani::assume(xs[i] >= -1 && xs[i] < (1 << 30));
                i += 1;
            }
            let mut out: Vec<u8> = Vec::with_capacity(N * 4);
            (&mut out).write_referent_array(xs.to_vec().into_iter()).unwrap();
            assert!(out.len() == N * 4);
            // layout: interleaved zigzag(delta)
            let mut last = 0i32;
            let mut i = 0;
            while i < N {
                let d = xs[i] - last;
                last = xs[i];
                let be = transform_i32(d).to_be_bytes();
                let mut j = 0;
                while j < 4 {
                    assert!(out[i + N * j] == be[j]);
                    j += 1;
                }
                i += 1;
            }
            let mut back = [0i32; N];
            let mut rd: &[u8] = &out[..];
            rd.read_referent_array(&mut back).unwrap();
            let mut i = 0;
            while i < N {
                assert!(back[i] == xs[i]);
                i += 1;
            }
            kani::cover!(N > 1 && xs[0] > xs[N - 1]);
            std::mem::forget(out);
        }
    };
}
referent_harness!(k3_referent_array_n2, 2);
referent_harness!(k3_referent_array_n3, 3);

// ------------------------------------------------- K6: 16-byte columns
macro_rules! bytes16_harness {
    ($name:ident, $n:expr) => {
        #[kani::proof]
        #[kani::unwind(50)]
        fn $name() {
            const N: usize = $n;
            let xs: [[u8; 16]; N] = kani::any();
            let mut out: Vec<u8> = Vec::with_capacity(N * 16);
            (&mut out).write_interleaved_bytes::<16>(&xs).unwrap();
            assert!(out.len() == N * 16);
            let mut i = 0;
            while i < N {
                let mut j = 0;
                while j < 16 {
                    assert!(out[i + N * j] == xs[i][j]);
                    j += 1;
                }
                i += 1;
            }
            let mut back = [[0u8; 16]; N];
            let mut rd: &[u8] = &out[..];
            rd.read_interleaved_bytes::<16>(&mut back).unwrap();
            assert!(rd.len() == 0);
            let mut i = 0;
            while i < N {
                let mut j = 0;
                while j < 16 {
                    assert!(back[i][j] == xs[i][j]);
                    j += 1;
                }
                i += 1;
            }
            kani::cover!(xs[0][0] != xs[N - 1][15]);
            std::mem::forget(out);
        }
    };
}
bytes16_harness!(k6_bytes16_n1, 1);
bytes16_harness!(k6_bytes16_n2, 2);

// ------------------------------------------------- K7: wire type ids
#[kani::proof]
fn k7_type_id_roundtrip() {
    let b: u8 = kani::any();
    match Type::try_from(b) {
        Ok(t) => {
            assert!(t as u8 == b);
            // every accepted id has a default variant type, and the way back
            // lands on the same wire type
            let vt = t.to_default_rbx_type();
            match vt {
                Some(vt) => assert!(Type::from_rbx_type(vt) == Some(t)),
                None => assert!(false),
            }
        }
        Err(e) => {
            std::mem::forget(e);
        }
    }
    kani::cover!(b == 0x22);
}

// Table from docs/binary.md, generated by the driver into k7_doc_table.rs:
// const DOC_TYPE_IDS: &[(u8, &str)].  Every documented id must be accepted
// unless the doc row is one the reader is known not to implement; every
// accepted id must be documented.
include!(concat!(env!("RBX_DOM_VERIF_GEN"), "/k7_doc_table.rs"));

#[kani::proof]
#[kani::unwind(64)]
fn k7_type_ids_match_docs() {
    // every documented (id, name) row that the crate implements: the id decodes to the
    // like-named variant and that variant encodes to the id.  Ids the crate accepts but the
    // document does not list (reported by the driver) are outside this comparison.
    let k: usize = kani::any();
    kani::assume(k < DOC_NAMED_IDS.len());
    let (id, variant) = DOC_NAMED_IDS[k];
    assert!(variant as u8 == id);
    match Type::try_from(id) {
        Ok(t) => assert!(t == variant),
        Err(e) => {
            std::mem::forget(e);
            assert!(false);
        }
    }
    // a documented id the crate does not implement must be rejected, not mis-decoded
    let j: usize = kani::any();
    if j < DOC_UNIMPLEMENTED_IDS.len() {
        match Type::try_from(DOC_UNIMPLEMENTED_IDS[j]) {
            Ok(_) => assert!(false),
            Err(e) => std::mem::forget(e),
        }
    }
    kani::cover!(id == 0x22);
}

// ------------------------------------------------- K9: file header
#[kani::proof]
#[kani::unwind(36)]
fn k9_file_header_decode() {
    const LEN: usize = 34;
    let buf: [u8; LEN] = kani::any();
    let n: usize = kani::any();
    kani::assume(n <= LEN);
    let mut rd: &[u8] = &buf[..n];
    match crate::deserializer::FileHeader::decode(&mut rd) {
        Ok(h) => {
            assert!(n >= 32);
            assert!(rd.len() == n - 32);
            // magic, signature, version, reserved as specified
            let magic = b"<roblox!\x89\xff\x0d\x0a\x1a\x0a\x00\x00";
            let mut i = 0;
            while i < 16 {
                assert!(buf[i] == magic[i]);
                i += 1;
            }
            let mut i = 24;
            while i < 32 {
                assert!(buf[i] == 0);
                i += 1;
            }
            assert!(h.num_types == u32::from_le_bytes([buf[16], buf[17], buf[18], buf[19]]));
            assert!(h.num_instances == u32::from_le_bytes([buf[20], buf[21], buf[22], buf[23]]));
            kani::cover!(h.num_types == 7);
        }
        Err(e) => {
            std::mem::forget(e);
        }
    }
}

// A header that is well-formed per spec is accepted (reader direction, C04).
#[kani::proof]
#[kani::unwind(36)]
fn k9_file_header_accepts_spec() {
    let num_types: u32 = kani::any();
    let num_instances: u32 = kani::any();
    let mut buf = [0u8; 32];
    let magic = b"<roblox!\x89\xff\x0d\x0a\x1a\x0a\x00\x00";
    let mut i = 0;
    while i < 16 {
        buf[i] = magic[i];
        i += 1;
    }
    let a = num_types.to_le_bytes();
    let b = num_instances.to_le_bytes();
    let mut i = 0;
    while i < 4 {
        buf[16 + i] = a[i];
        buf[20 + i] = b[i];
        i += 1;
    }
    match crate::deserializer::FileHeader::decode(&buf[..]) {
        Ok(h) => {
            assert!(h.num_types == num_types && h.num_instances == num_instances);
        }
        Err(e) => {
            std::mem::forget(e);
            assert!(false);
        }
    }
}

// ------------------------------------------------- K8: chunk framing, uncompressed
// docs/binary.md "Chunks": name(4) | compressed len u32 = 0 | len u32 | reserved u32 = 0 | data
macro_rules! chunk_dump_harness {
    ($name:ident, $n:expr, $unwind:expr) => {
        #[kani::proof]
        #[kani::unwind($unwind)]
        fn $name() {
            use crate::chunk::ChunkBuilder;
            use crate::serializer::CompressionType;
            use std::io::Write;
            const N: usize = $n;
            let body: [u8; N] = kani::any();
            let n: usize = kani::any();
            kani::assume(n <= N);
            let mut cb = ChunkBuilder::new(b"PROP", CompressionType::None);
            cb.write_all(&body[..n]).unwrap();
            let mut out: Vec<u8> = Vec::with_capacity(32);
            cb.dump(&mut out).unwrap();
            assert!(out.len() == 16 + n);
            assert!(out[0] == b'P' && out[1] == b'R' && out[2] == b'O' && out[3] == b'P');
            let mut i = 4;
            while i < 8 {
                assert!(out[i] == 0);
                i += 1;
            }
            let le = (n as u32).to_le_bytes();
            let mut i = 0;
            while i < 4 {
                assert!(out[8 + i] == le[i]);
                assert!(out[12 + i] == 0);
                i += 1;
            }
            let mut i = 0;
            while i < n {
                assert!(out[16 + i] == body[i]);
                i += 1;
            }
            kani::cover!(n == N);
            std::mem::forget(out);
        }
    };
}
chunk_dump_harness!(k8_chunk_dump_none_n2, 2, 10);
chunk_dump_harness!(k8_chunk_dump_none_n4, 4, 12);

// ------------------------------------------------- vacuity twin
#[kani::proof]
fn kx_vacuity_twin_binary() {
    let v: i32 = kani::any();
    let t = transform_i32(v);
    assert!(t == v); // must FAIL: shows failing assertions are reported
}

// native replays of counterexamples (empty unless the driver is replaying one)
include!(concat!(env!("RBX_DOM_VERIF_GEN"), "/playback_rbx_binary.rs"));
