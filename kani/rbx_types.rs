// Kani harnesses for rbx_types (included by the guarded hook in src/lib.rs).
use crate::*;
use std::str::FromStr;

// ------------------------------------------------- K4: CFrame rotation ids
#[kani::proof]
#[kani::unwind(3)]
fn k4_rotation_id_roundtrip() {
    let id: u8 = kani::any();
    match Matrix3::from_basic_rotation_id(id) {
        Ok(m) => {
            assert!(m.to_basic_rotation_id() == Some(id));
            kani::cover!(id == 0x23);
        }
        Err(e) => {
            std::mem::forget(e);
        }
    }
}

// The 24 basic rotations are proper rotations of the cube: entries in {-1, 0, 1}, orthonormal rows, determinant +1.  An oracle
// that does not depend on the table itself (a flipped sign gives a reflection, determinant -1).
#[kani::proof]
#[kani::unwind(5)]
fn k4_rotation_table_proper() {
    let id: u8 = kani::any();
    match Matrix3::from_basic_rotation_id(id) {
        Ok(m) => {
            let r = [[m.x.x, m.x.y, m.x.z], [m.y.x, m.y.y, m.y.z], [m.z.x, m.z.y, m.z.z]];
            let mut i = 0;
            while i < 3 {
                let mut j = 0;
                while j < 3 {
                    assert!(r[i][j] == 0.0 || r[i][j] == 1.0 || r[i][j] == -1.0);
                    let dot = r[i][0] * r[j][0] + r[i][1] * r[j][1] + r[i][2] * r[j][2];
                    assert!(dot == if i == j { 1.0 } else { 0.0 });
                    j += 1;
                }
                i += 1;
            }
            let det = r[0][0] * (r[1][1] * r[2][2] - r[1][2] * r[2][1]) - r[0][1] * (r[1][0] * r[2][2] - r[1][2] * r[2][0])
                + r[0][2] * (r[1][0] * r[2][1] - r[1][1] * r[2][0]);
            assert!(det == 1.0);
            kani::cover!(id == 0x1c);
        }
        Err(e) => {
            std::mem::forget(e);
        }
    }
}

fn close(a: f32, b: f32) -> bool {
    (a - b).abs() <= f32::EPSILON
}

// The only snap the property permits: Some(id) only if every component is
// within f32::EPSILON of the basic rotation's component.
#[kani::proof]
#[kani::unwind(3)]
fn k4_rotation_snap_within_epsilon() {
    let m = Matrix3::new(
        Vector3::new(kani::any(), kani::any(), kani::any()),
        Vector3::new(kani::any(), kani::any(), kani::any()),
        Vector3::new(kani::any(), kani::any(), kani::any()),
    );
    if let Some(id) = m.to_basic_rotation_id() {
        match Matrix3::from_basic_rotation_id(id) {
            Ok(b) => {
                assert!(close(m.x.x, b.x.x));
                assert!(close(m.x.y, b.x.y));
                assert!(close(m.x.z, b.x.z));
                assert!(close(m.y.x, b.y.x));
                assert!(close(m.y.y, b.y.y));
                assert!(close(m.y.z, b.y.z));
                assert!(close(m.z.x, b.z.x));
                assert!(close(m.z.y, b.z.y));
                assert!(close(m.z.z, b.z.z));
                kani::cover!(id == 0x02);
            }
            Err(e) => {
                std::mem::forget(e);
                assert!(false); // an id that the reader rejects must never be produced
            }
        }
    }
}

// Vector3::to_normal_id (shared by CFrame, Faces-like encodings): a vector maps
// to a normal id only when within epsilon of that basis vector.
#[kani::proof]
fn k4_normal_id_within_epsilon() {
    let v = Vector3::new(kani::any(), kani::any(), kani::any());
    if let Some(id) = v.to_normal_id() {
        assert!(id < 6);
        let s: f32 = if id < 3 { 1.0 } else { -1.0 };
        let ax = id % 3;
        assert!(close(v.x, if ax == 0 { s } else { 0.0 }));
        assert!(close(v.y, if ax == 1 { s } else { 0.0 }));
        assert!(close(v.z, if ax == 2 { s } else { 0.0 }));
        kani::cover!(id == 4);
    }
}

// exact basis vectors are recognised (no lost snaps)
#[kani::proof]
fn k4_normal_id_exact_basis() {
    let id: u8 = kani::any();
    kani::assume(id < 6);
    let s: f32 = if id < 3 { 1.0 } else { -1.0 };
    let ax = id % 3;
    let v = Vector3::new(
        if ax == 0 { s } else { 0.0 },
        if ax == 1 { s } else { 0.0 },
        if ax == 2 { s } else { 0.0 },
    );
    assert!(v.to_normal_id() == Some(id));
}

// ------------------------------------------------- K5: colour quantisation
#[kani::proof]
fn k5_color3uint8_roundtrip() {
    let c = Color3uint8::new(kani::any(), kani::any(), kani::any());
    let f: Color3 = c.into();
    let back: Color3uint8 = f.into();
    assert!(c == back);
    kani::cover!(c.r == 255 && c.g == 0);
}

// quantisation of an arbitrary float channel: clamp to [0,1], scale, round;
// result is monotone in the input and hits both ends.
#[kani::proof]
fn k5_color3_quantise_channel() {
    let a: f32 = kani::any();
    let b: f32 = kani::any();
    kani::assume(!a.is_nan() && !b.is_nan());
    let qa: Color3uint8 = Color3::new(a, 0.0, 1.0).into();
    let qb: Color3uint8 = Color3::new(b, 0.0, 1.0).into();
    assert!(qa.g == 0 && qa.b == 255);
    if a <= b {
        assert!(qa.r <= qb.r);
    }
    if a <= 0.0 {
        assert!(qa.r == 0);
    }
    if a >= 1.0 {
        assert!(qa.r == 255);
    }
    kani::cover!(qa.r == 128);
}

// ------------------------------------------------- K13: bit sets and tables
#[kani::proof]
fn k13_faces_bits() {
    let b: u8 = kani::any();
    match Faces::from_bits(b) {
        Some(f) => {
            assert!(b < 64);
            assert!(f.bits() == b);
            assert!(f.contains(Faces::RIGHT) == (b & 1 != 0));
            assert!(f.contains(Faces::TOP) == (b & 2 != 0));
            assert!(f.contains(Faces::BACK) == (b & 4 != 0));
            assert!(f.contains(Faces::LEFT) == (b & 8 != 0));
            assert!(f.contains(Faces::BOTTOM) == (b & 16 != 0));
            assert!(f.contains(Faces::FRONT) == (b & 32 != 0));
            kani::cover!(b == 63);
        }
        None => assert!(b >= 64),
    }
}

#[kani::proof]
fn k13_axes_bits() {
    let b: u8 = kani::any();
    match Axes::from_bits(b) {
        Some(f) => {
            assert!(b < 8);
            assert!(f.bits() == b);
            assert!(f.contains(Axes::X) == (b & 1 != 0));
            assert!(f.contains(Axes::Y) == (b & 2 != 0));
            assert!(f.contains(Axes::Z) == (b & 4 != 0));
            kani::cover!(b == 7);
        }
        None => assert!(b >= 8),
    }
}

#[kani::proof]
fn k13_brickcolor_number() {
    let n: u16 = kani::any();
    if let Some(c) = BrickColor::from_number(n) {
        assert!(c as u16 == n);
        kani::cover!(n == 1032);
    }
}

// completeness: every variant of the enum (list generated from the macro invocation) is found again from its own number
include!(concat!(env!("RBX_DOM_VERIF_GEN"), "/k13_brick_variants.rs"));

#[kani::proof]
fn k13_brickcolor_variants() {
    let i: usize = kani::any();
    kani::assume(i < BRICK_VARIANTS.len());
    let v = BRICK_VARIANTS[i];
    let n = v as u16;
    match BrickColor::from_number(n) {
        Some(c) => {
            assert!(c == v);
            kani::cover!(n == 365);
        }
        None => panic!("variant not found from its own number"),
    }
}

// (a from_name harness was tried twice — symbolic row index, and all rows walked in one run — and timed out at 900 s / 600 s: str match arms; not claimed)
// palette colours: to_color3uint8 of every variant is the colour of its own row
#[kani::proof]
fn k13_brickcolor_palette() {
    let i: usize = kani::any();
    kani::assume(i < BRICK_ROWS.len());
    let v = BRICK_VARIANTS[i];
    let (_, _, (r, g, b)) = BRICK_ROWS[i];
    let c = v.to_color3uint8();
    assert!(c.r == r && c.g == g && c.b == b);
    kani::cover!(v as u16 == 1032);
}

#[kani::proof]
fn k13_font_weight_style() {
    let w: u16 = kani::any();
    match FontWeight::from_u16(w) {
        Some(x) => {
            assert!(x.as_u16() == w);
            kani::cover!(w == 900);
        }
        None => assert!(w % 100 != 0 || w == 0 || w > 900),
    }
    let s: u8 = kani::any();
    match FontStyle::from_u8(s) {
        Some(x) => assert!(x.as_u8() == s),
        None => assert!(s > 1),
    }
}

#[kani::proof]
fn k13_security_capabilities_bits() {
    let b: u64 = kani::any();
    assert!(SecurityCapabilities::from_bits(b).bits() == b);
    kani::cover!(b == u64::MAX);
}

// ------------------------------------------------- K14: text forms, parse side
fn hex(d: u8) -> u8 {
    if d < 10 {
        b'0' + d
    } else {
        b'a' + (d - 10)
    }
}

// Harness-side printer: the documented meaning of "{:016x}{:08x}{:08x}" /
// "{:032x}" (zero padded lower-case two's complement hex).  Trusted; its
// agreement with Display is validated natively by the driver on boundary
// values.
#[kani::proof]
#[kani::unwind(40)]
fn k14_uniqueid_parse_of_printed_form() {
    let index: u32 = kani::any();
    let time: u32 = kani::any();
    let random: i64 = kani::any();
    let mut s = [0u8; 32];
    let r = random as u64;
    let mut i = 0;
    while i < 16 {
        s[i] = hex(((r >> (60 - 4 * i)) & 0xf) as u8);
        i += 1;
    }
    let mut i = 0;
    while i < 8 {
        s[16 + i] = hex(((time >> (28 - 4 * i)) & 0xf) as u8);
        i += 1;
    }
    let mut i = 0;
    while i < 8 {
        s[24 + i] = hex(((index >> (28 - 4 * i)) & 0xf) as u8);
        i += 1;
    }
    let txt = unsafe { std::str::from_utf8_unchecked(&s) };
    match UniqueId::from_str(txt) {
        Ok(u) => {
            assert!(u.index() == index && u.time() == time && u.random() == random);
            kani::cover!(index == 7);
        }
        Err(e) => {
            std::mem::forget(e);
            panic!("own text form rejected");
        }
    }
}

#[kani::proof]
#[kani::unwind(40)]
fn k14_ref_parse_of_printed_form() {
    let v: u128 = kani::any();
    let mut s = [0u8; 32];
    let mut i = 0;
    while i < 32 {
        s[i] = hex(((v >> (124 - 4 * i)) & 0xf) as u8);
        i += 1;
    }
    let txt = unsafe { std::str::from_utf8_unchecked(&s) };
    match Ref::from_str(txt) {
        Ok(r) => {
            // Ref has no public numeric accessor: compare through is_none and
            // through equality with the Ref parsed from the same digits again.
            assert!(r.is_none() == (v == 0));
            kani::cover!(v == 1);
        }
        Err(e) => {
            std::mem::forget(e);
            panic!("own text form rejected");
        }
    }
}

// two different 128-bit values never parse to equal Refs (injectivity of the text form)
#[kani::proof]
#[kani::unwind(40)]
fn k14_ref_parse_injective() {
    let a: u128 = kani::any();
    let b: u128 = kani::any();
    kani::assume(a != b);
    let mut sa = [0u8; 32];
    let mut sb = [0u8; 32];
    let mut i = 0;
    while i < 32 {
        sa[i] = hex(((a >> (124 - 4 * i)) & 0xf) as u8);
        sb[i] = hex(((b >> (124 - 4 * i)) & 0xf) as u8);
        i += 1;
    }
    let ta = unsafe { std::str::from_utf8_unchecked(&sa) };
    let tb = unsafe { std::str::from_utf8_unchecked(&sb) };
    if let (Ok(ra), Ok(rb)) = (Ref::from_str(ta), Ref::from_str(tb)) {
        assert!(ra != rb);
    }
}

// ------------------------------------------------- vacuity twin
#[kani::proof]
fn kx_vacuity_twin_types() {
    let b: u8 = kani::any();
    assert!(Faces::from_bits(b).is_some()); // must FAIL
}

// native replays of counterexamples (empty unless the driver is replaying one)
include!(concat!(env!("RBX_DOM_VERIF_GEN"), "/playback_rbx_types.rs"));
