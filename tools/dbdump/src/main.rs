// Dumps the bundled reflection database, as decoded by the real
// rbx_reflection_database::get() and the real serde types, to JSON on stdout.
fn main() {
    let db = rbx_reflection_database::get();
    let out = std::io::stdout();
    serde_json::to_writer(out.lock(), db).expect("serialize database");
}
