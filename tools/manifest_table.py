# Table consumed by tools/mkmanifest.py.  Keep in step with DESIGN.md section 0.
HOOK_COMMITS = ['e70c2587', '617a5e89', '9a510528']
NOTES = ('Solver-based checking of the real code: Kani/CBMC harnesses (engine K), a MIR symbolic executor with z3 (engine M), '
         'SMT tables over the real reflection database and doc tables (engine Z). exit 2 = inconclusive (never success, never violation). '
         'Known findings: known_findings.json.')
ENGINES = [
    dict(name='Z', path='vlib/ztables.py', serves_properties=['C16'],
         kind_free_text='the real reflection database (dumped by tools/dbdump through the real serde types) as SMT-LIB uninterpreted-function tables; closure facts decided as unsat of their negation by z3, cross-checked by cvc5'),
    dict(name='M', path='vlib/mirsym/', serves_properties=['C09', 'C10', 'C11', 'C12', 'C18'],
         kind_free_text='symbolic executor over rustc MIR text (regenerated from /repo each run) with z3: forking on solver-feasible branches, contract models for std containers, postconditions as unsat queries, counterexamples replayed natively by tools/replayer'),
    dict(name='K', path='vlib/kani.py + kani/*.rs', serves_properties=['C01', 'C03', 'C13', 'C15', 'C17'],
         kind_free_text='Kani 0.68 proof harnesses compiled into the real crates through a cfg-guarded include; CBMC decides; counterexamples replayed natively with cargo kani playback'),
]

NOT_BUILT = 'check not built yet in this session (planned engine in DESIGN.md); nothing is claimed until it runs'

claim('C01', 'Bounded model checking of the real wire codecs: zigzag (all values), interleaved i32/u32/f32/i64/referent/16-byte arrays (N<=2 quick, N<=3 thorough, all bit patterns), CFrame rotation ids incl. the epsilon-only snap over 9 symbolic floats, Color3uint8 quantisation. Partial: whole-DOM round trip obligations (M1/M2) are not part of this claim.',
      'Kani/CBMC model of the dev-profile build; arrays bounded; compression FFI outside; see DESIGN.md C01', 'Kani proof harnesses (CBMC/SAT) over the compiled code', 'DESIGN.md section 5 C01', 'K')
claim('C03', 'Type-id table equals docs/binary.md in both directions (doc parsed at run time), interleave/float/referent layouts equal the spec formulas, uncompressed chunk framing layout. Partial: INST/PRNT/SSTR structure (M3) not yet part of the claim.',
      'Kani/CBMC; doc tables by regex from docs/binary.md; compressed bodies outside', 'Kani proof harnesses (CBMC/SAT) + doc-table comparison', 'DESIGN.md section 5 C03', 'K')
claim('C13', 'FileHeader::decode on any <=34-byte input never panics and accepts exactly spec headers. Partial: chunk/attribute decoders (M14-M18) not yet part of the claim.',
      'Kani/CBMC; XML decoder outside', 'Kani proof harnesses (CBMC/SAT) over arbitrary input bytes', 'DESIGN.md section 5 C13', 'K')
claim('C15', 'PropertyMigration::perform is total on every legacy value the real database admits (Enum.Font items from dbdump, all BrickColor numbers, both booleans) and rejects wrong types without panicking. Partial: reader/writer routing not yet part of the claim.',
      'Kani/CBMC; domains generated from the real database at run time', 'Kani proof harnesses (CBMC/SAT) with database-derived domains', 'DESIGN.md section 5 C15', 'K')
claim('C17', 'Faces/Axes/BrickColor/FontWeight/FontStyle/SecurityCapabilities conversions over their full domains; Ref and UniqueId parsers accept their own text form for all values (print side modelled by a validated harness printer). Partial: serde encodings outside.',
      'Kani/CBMC; core::fmt print side replaced by a harness printer validated natively', 'Kani proof harnesses (CBMC/SAT)', 'DESIGN.md section 5 C17', 'K')

DOM_NOTE = 'inductive step: every forest shape of the stated size with symbolic Refs/arguments through the real MIR of each operation; assumptions A1/A2 (Ref / UniqueId freshness), Ref as opaque identity, container contract models; see evidence.assumptions'
claim('C09', 'From every valid WeakDom state within the bound (<=4 nodes per DOM quick, <=5 thorough; second DOM <=2/3) each of the seven operations, called within its documented preconditions with fully symbolic arguments, preserves the forest invariant on every DOM involved, never panics, leaves removed subtrees unresolvable, and descendants_of yields the reachable set parents-first. Because the pre-state is arbitrary, histories of any length that stay within the bound are covered.',
      DOM_NOTE, 'symbolic execution of rustc MIR with z3 (inductive invariant step), native replay of counterexamples', 'DESIGN.md section 5 C09', 'M')
claim('C10', 'Same symbolic step, postcondition = equality with a reference model (plain ordered trees executing the documented meaning) plus a frame condition on every instance the operation does not name (referent, parent, sibling position, name, class, every property).',
      DOM_NOTE, 'symbolic execution of rustc MIR with z3, differential against a reference model per path', 'DESIGN.md section 5 C10', 'M')
claim('C11', 'clone_within / clone_into_external / clone_multiple_into_external: fresh parentless copies isomorphic in shape, order, names, classes and non-Ref properties; every symbolic Ref property satisfies the three-way rewrite rule (decided by z3 per property); source untouched; also under every hash-iteration order (small bound).',
      DOM_NOTE, 'symbolic execution of rustc MIR with z3, rewrite rule as an SMT formula per Ref property', 'DESIGN.md section 5 C11', 'M')
claim('C12', 'unique_ids bookkeeping equals the ids held and ids stay pairwise distinct after every operation from any valid state with symbolic (possibly colliding) incoming ids; an id is replaced iff it collides with one present in the destination and preserved otherwise; destroy/transfer free ids. Partial: UniqueId::now itself is a freshness contract here (interleavings of now(): not yet part of the claim); reader-produced DOMs outside.',
      DOM_NOTE, 'symbolic execution of rustc MIR with z3 (inductive invariant over the hidden bookkeeping set), native replay incl. probes of the hidden set', 'DESIGN.md section 5 C12', 'M')

claim('C16', 'Closure facts over the bundled database, decided by z3 (cvc5 cross-check) on SMT tables generated from the database as the real crates decode it: superclasses exist and chains end, aliases name canonical properties, serializes-as targets exist, migration targets resolve to serializable properties of the right type, referenced enums exist, every default belongs to a known property and has the declared / serialized type. Exhaustive over all 797 classes, 3242 descriptors, 7231 defaults. Partial: codec round trip of defaults and lookups on other databases are outside.',
      'dbdump decoding; UF tables with exact closed-world lookup constraint; chain-lookup facts decided instance-wise (one query per entry)', 'SMT (z3/cvc5) over tables generated from the real database', 'DESIGN.md section 5 C16', 'Z')
claim('C18', 'Every program of 2 threads x 2 operations (new / clone / drop, symbolic contents) plus the regression program, under every interleaving of the intern table critical sections and the release-to-cleanup window (and at every synchronisation call with <=2 preemptions): bytes exposed, equal contents share one buffer, no deadlock/panic, empty table at quiescence. Thorough: 2x3, 3x2 and <=3 preemptions.',
      'Arc/Weak/Mutex/HashMap contract models; blake3 injective; sequential consistency; bounds as stated', 'symbolic execution of rustc MIR with a systematic schedule explorer (stateless DFS), z3 for content equalities, schedule replay on real threads', 'DESIGN.md section 5 C18', 'M')

NA['C02'] = 'XML text path runs through xml-rs (third-party character state machines) and core::fmt/dec2flt float text; neither Kani nor the MIR engine can encode them within reach (DESIGN.md C02)'
NA['C05'] = 'needs an independent XML parser reading xml-rs emitter output and the xml-rs tokenizer reading foreign documents; not encodable (DESIGN.md C05)'
for p in ('C04', 'C06', 'C07', 'C08', 'C14'):
    NA[p] = NOT_BUILT
