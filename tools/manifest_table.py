# Table consumed by tools/mkmanifest.py.  Keep in step with DESIGN.md section 0.
HOOK_COMMITS = ['e70c2587']
NOTES = ('Solver-based checking of the real code: Kani/CBMC harnesses (engine K), a MIR symbolic executor with z3 (engine M), '
         'SMT tables over the real reflection database and doc tables (engine Z). exit 2 = inconclusive (never success, never violation). '
         'Known findings: known_findings.json.')
ENGINES = [
    dict(name='K', path='vlib/kani.py + kani/*.rs', serves_properties=['C01', 'C03', 'C13', 'C15', 'C17'],
         kind_free_text='Kani 0.68 proof harnesses compiled into the real crates through a cfg-guarded include; CBMC decides; counterexamples replayed natively with cargo kani playback'),
]

NOT_BUILT = 'check not built yet in this session (planned engine in DESIGN.md); nothing is claimed until it runs'

claim('C01', 'Bounded model checking of the real wire codecs: zigzag (all values), interleaved i32/u32/f32/i64/referent/16-byte arrays (N<=2 quick, N<=3 thorough, all bit patterns), CFrame rotation ids incl. the epsilon-only snap over 9 symbolic floats, Color3uint8 quantisation. Partial: whole-DOM round trip obligations (M1/M2) are not part of this claim.',
      'Kani/CBMC model of the dev-profile build; arrays bounded; compression FFI outside; see DESIGN.md C01', 'Kani proof harnesses (CBMC/SAT) over the compiled code', 'DESIGN.md section 5 C01', 'K')
claim('C03', 'Type-id table equals docs/binary.md in both directions (doc parsed at run time), interleave/float/referent layouts equal the spec formulas, uncompressed chunk framing layout. Partial: INST/PRNT/SSTR structure (M3) not yet part of the claim.',
      'Kani/CBMC; doc tables by regex from docs/binary.md; compressed bodies outside', 'Kani proof harnesses (CBMC/SAT) + doc-table comparison', 'DESIGN.md section 5 C03', 'K')
claim('C13', 'FileHeader::decode on any <=34-byte input never panics and accepts exactly spec headers. Partial: chunk/attribute decoders (M14-M18) not yet part of the claim.',
      'Kani/CBMC; XML decoder outside', 'Kani proof harnesses (CBMC/SAT) over arbitrary input bytes', 'DESIGN.md section 5 C13', 'K')
claim('C15', 'PropertyMigration::perform is total on every legacy value the real database admits (Enum.Font items from dbdump, all BrickColor numbers, both booleans) and rejects wrong types without panicking. Partial: reader/writer routing not yet part of the claim.',
      'Kani/CBMC; domains generated from the real database at run time', 'Kani proof harnesses (CBMC/SAT) with database-derived domains', 'DESIGN.md section 5 C15', 'K')
claim('C17', 'Faces/Axes/BrickColor/FontWeight/FontStyle/SecurityCapabilities conversions over their full domains; Ref and UniqueId parsers accept their own text form for all values (print side modelled by a validated harness printer). Partial: serde encodings outside.',
      'Kani/CBMC; core::fmt print side replaced by a harness printer validated natively', 'Kani proof harnesses (CBMC/SAT)', 'DESIGN.md section 5 C17', 'K')

NA['C02'] = 'XML text path runs through xml-rs (third-party character state machines) and core::fmt/dec2flt float text; neither Kani nor the MIR engine can encode them within reach (DESIGN.md C02)'
NA['C05'] = 'needs an independent XML parser reading xml-rs emitter output and the xml-rs tokenizer reading foreign documents; not encodable (DESIGN.md C05)'
for p in ('C04', 'C06', 'C07', 'C08', 'C09', 'C10', 'C11', 'C12', 'C14', 'C16', 'C18'):
    NA[p] = NOT_BUILT
