#!/usr/bin/env python3
"""Writes /verif/MANIFEST.json from the table below (single source of truth for what is claimed)."""
import json, os
V = os.path.dirname(os.path.dirname(os.path.abspath(__file__)))

CHECKS = {}
NA = {}


def claim(pid, text, note, technique, design_ref, engine):
    CHECKS[pid] = dict(
        property_id=pid, quick_cmd='./check %s --tier quick' % pid, thorough_cmd='./check %s --tier thorough' % pid,
        evidence_file='evidence/%s.json' % pid, replay_cmd_template='./check --replay {path}', engine=engine,
        level_claimed=dict(category='model_checking', text=text, design_ref=design_ref), level_note=note, technique=technique)


exec(open(os.path.join(V, 'tools', 'manifest_table.py')).read())

props = [json.loads(l)['id'] for l in open(os.path.join(V, 'properties.jsonl'))]
for p in props:
    assert (p in CHECKS) != (p in NA), p
m = {
    'version': 1,
    'setup_cmd': './check --setup',
    'hooks': {
        'guard': 'rbx_dom_verif',
        'enable': 'RUSTFLAGS="--cfg rbx_dom_verif" (cargo kani additionally sets cfg(kani)); harness sources are pulled in through env RBX_DOM_VERIF_DIR=/verif/kani, generated tables through RBX_DOM_VERIF_GEN=/verif/.build/gen',
        'baseline_off_cmd': 'cd /repo && cargo test --workspace --no-fail-fast --offline',
        'source_commits': HOOK_COMMITS,
        'add_only': True,
    },
    'engines': ENGINES,
    'checks': [CHECKS[p] for p in props if p in CHECKS],
    'not_applicable': [dict(property_id=p, reason=NA[p]) for p in props if p in NA],
    'notes': NOTES,
}
json.dump(m, open(os.path.join(V, 'MANIFEST.json'), 'w'), indent=1)
print('wrote MANIFEST.json: %d checks, %d not applicable' % (len(m['checks']), len(m['not_applicable'])))
