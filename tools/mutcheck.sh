#!/bin/bash
# usage: tools/mutcheck.sh <patch.diff> <property id>...   -- applies a seeded change to /repo, runs the quick checks, reverts
set -u
patch=$1; shift
cd /repo && git apply "$patch" || { echo "patch does not apply"; exit 9; }
for p in "$@"; do
  (cd /verif && ./check $p --tier quick > /tmp/mutcheck_$p.log 2>&1; echo "== $p rc=$? $(grep -c '^VIOLATION' /tmp/mutcheck_$p.log) violation line(s)"; grep -E "^VIOLATION|^INCONCLUSIVE|^OK|fail  |inconclusive " /tmp/mutcheck_$p.log | cut -c1-260 | head -8)
done
cd /repo && git checkout -- . && git status --short | head -3
