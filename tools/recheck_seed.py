#!/usr/bin/env python3
"""Re-run checks against an already confirmed seeded change: tools/recheck_seed.py <name> <property ids...>
applies /verif/seeded/<name>/patch.diff to /repo (3-way if the tree moved on), runs the quick checks, reverts, records the outcome."""
import json, os, re, subprocess, sys, time
V = os.path.dirname(os.path.dirname(os.path.abspath(__file__)))


def sh(cmd, cwd=None, timeout=7200):
    p = subprocess.run(cmd, cwd=cwd, shell=True, stdout=subprocess.PIPE, stderr=subprocess.STDOUT, text=True, timeout=timeout)
    return p.returncode, p.stdout


def main():
    name, props = sys.argv[1], sys.argv[2:]
    d = os.path.join(V, 'seeded', name)
    meta = json.load(open(os.path.join(d, 'meta.json')))
    assert sh('git status --porcelain', cwd='/repo')[1].strip() == '', '/repo is not clean'
    rc, out = sh('git apply %s/patch.diff' % d, cwd='/repo')
    if rc != 0:
        rc, out = sh('git apply --3way %s/patch.diff' % d, cwd='/repo')
        if rc != 0:
            sh('git checkout -- . ; git reset -q', cwd='/repo')
            print(name, 'patch does not apply to the current tree:', out[-300:])
            meta.setdefault('recheck', {})['apply'] = 'patch no longer applies at %s' % sh('git rev-parse --short HEAD', cwd='/repo')[1].strip()
            json.dump(meta, open(os.path.join(d, 'meta.json'), 'w'), indent=1)
            return
        sh('git reset -q', cwd='/repo')
    try:
        for p in props:
            t = time.time()
            rc, out = sh('./check %s --tier quick 2>&1' % p, cwd=V)
            viol = re.findall(r'^VIOLATION .*$', out, re.M)
            failing = re.findall(r'^  (\S+)\s+(fail|inconclusive)\s+(.*)$', out, re.M)
            meta.setdefault('checks', {})[p] = dict(rc=rc, violation_lines=len(viol), caught=(rc == 1 and bool(viol)), wall_s=round(time.time() - t, 1),
                                                    obligations=[(a, b, c[:200]) for a, b, c in failing][:6], rechecked_at=time.strftime('%Y-%m-%d %H:%M:%S'))
            print(name, p, 'rc=%d caught=%s' % (rc, rc == 1 and bool(viol)))
            for o in failing[:6]:
                print('    ', o[0], o[1], o[2][:220])
    finally:
        sh('git checkout -- . && git clean -fdq', cwd='/repo')
    json.dump(meta, open(os.path.join(d, 'meta.json'), 'w'), indent=1)


if __name__ == '__main__':
    main()
