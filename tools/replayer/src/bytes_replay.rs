pub fn main(_args: &[String]) {
    unimplemented!()
}
