//! `replayer bytes <what> <arg>`: byte-level entry points of the real crates on concrete inputs.
//!   attr-decode <hex>            Attributes::from_reader on the bytes (one-shot reader)
//!   attr-decode-choppy <hex> <schedule json>   same through a reader that follows a short-read / Interrupted schedule
//!   attr-roundtrip <json>        build the map from bit patterns, to_writer, from_reader; prints bytes and decoded values
//!   binary-decode <hex>          rbx_binary::from_reader
//!   binary-decode-db <hex> <db json>   Deserializer with a custom reflection database; bit-exact tree view
//!   material-colors <json>       MaterialColors encode / decode / get_color on a concrete map or blob
//!   tags <json>                  Tags encode / decode on concrete names or a blob
//!   binary-encode <json file>    Serializer (compression off, custom database) on a DOM built from bit patterns, then read back
//!   binary-compress-scan         Folders named a^k written with LZ4 / Zstandard and read back (replay of framing findings)
//!   binary-det <json file>       determinism replay: write, write with reversed property order, load + save again
//!   binary-tree <json file>      forest with Ref / Content properties and service classes: written (selected roots) and read back
//!   binary-write-sink <room>     rbx_binary::to_writer of a one-Folder DOM into a sink with room for <room> bytes
use std::io::Read;

use rbx_types::*;
use serde_json::{json, Value};

fn unhex(s: &str) -> Vec<u8> {
    // "@path": the hex text is in that file (inputs too long for an argument)
    let owned;
    let s = if let Some(p) = s.strip_prefix('@') {
        owned = std::fs::read_to_string(p).expect("hex file");
        owned.trim()
    } else {
        s
    };
    (0..s.len() / 2).map(|i| u8::from_str_radix(&s[2 * i..2 * i + 2], 16).unwrap()).collect()
}

fn hex(b: &[u8]) -> String {
    b.iter().map(|x| format!("{:02x}", x)).collect()
}

fn f(v: &Value) -> f32 {
    f32::from_bits(v.as_u64().unwrap() as u32)
}

fn bytes(v: &Value) -> Vec<u8> {
    v.as_array().unwrap().iter().map(|x| x.as_u64().unwrap() as u8).collect()
}

fn string(v: &Value) -> String {
    String::from_utf8(bytes(v)).expect("utf8 name")
}

fn v3(a: &[Value]) -> Vector3 {
    Vector3::new(f(&a[0]), f(&a[1]), f(&a[2]))
}

/// {"kind": K, "v": ...} with floats as bit patterns and strings as byte arrays
fn build(kind: &str, v: &Value) -> Variant {
    let a = v.as_array().cloned().unwrap_or_default();
    match kind {
        "BinaryString" => Variant::BinaryString(BinaryString::from(bytes(v))),
        "String" => Variant::String(string(v)),
        "Bool" => Variant::Bool(v.as_bool().unwrap()),
        "Int32" => Variant::Int32(v.as_i64().unwrap() as i32),
        "Float32" => Variant::Float32(f(v)),
        "Float64" => Variant::Float64(f64::from_bits(v.as_u64().unwrap())),
        "UDim" => Variant::UDim(UDim::new(f(&a[0]), a[1].as_i64().unwrap() as i32)),
        "UDim2" => Variant::UDim2(UDim2::new(
            UDim::new(f(&a[0]), a[1].as_i64().unwrap() as i32),
            UDim::new(f(&a[2]), a[3].as_i64().unwrap() as i32),
        )),
        "BrickColor" => Variant::BrickColor(BrickColor::from_number(v.as_u64().unwrap() as u16).expect("brick color number")),
        "Color3" => Variant::Color3(Color3::new(f(&a[0]), f(&a[1]), f(&a[2]))),
        "Vector2" => Variant::Vector2(Vector2::new(f(&a[0]), f(&a[1]))),
        "Vector3" => Variant::Vector3(v3(&a)),
        "NumberRange" => Variant::NumberRange(NumberRange::new(f(&a[0]), f(&a[1]))),
        "Rect" => Variant::Rect(Rect::new(Vector2::new(f(&a[0]), f(&a[1])), Vector2::new(f(&a[2]), f(&a[3])))),
        "CFrame" => Variant::CFrame(CFrame::new(v3(&a[0..3]), Matrix3::new(v3(&a[3..6]), v3(&a[6..9]), v3(&a[9..12])))),
        "EnumItem" => Variant::EnumItem(EnumItem { ty: string(&a[0]), value: a[1].as_u64().unwrap() as u32 }),
        "NumberSequence" => Variant::NumberSequence(NumberSequence {
            keypoints: a.iter().map(|k| NumberSequenceKeypoint::new(f(&k[0]), f(&k[1]), f(&k[2]))).collect(),
        }),
        "ColorSequence" => Variant::ColorSequence(ColorSequence {
            keypoints: a.iter().map(|k| ColorSequenceKeypoint::new(f(&k[0]), Color3::new(f(&k[1]), f(&k[2]), f(&k[3])))).collect(),
        }),
        "Font" => Variant::Font(Font {
            family: string(&a[2]),
            weight: FontWeight::from_u16(a[0].as_u64().unwrap() as u16).unwrap(),
            style: FontStyle::from_u8(a[1].as_u64().unwrap() as u8).unwrap(),
            cached_face_id: if a[3].is_null() { None } else { Some(string(&a[3])) },
        }),
        "UniqueId" => Variant::UniqueId(UniqueId::new(a[0].as_u64().unwrap() as u32, a[1].as_u64().unwrap() as u32, a[2].as_i64().unwrap())),
        "SecurityCapabilities" => Variant::SecurityCapabilities(SecurityCapabilities::from_bits(v.as_u64().unwrap())),
        "OptionalCFrame" => {
            if v.is_null() {
                Variant::OptionalCFrame(None)
            } else {
                Variant::OptionalCFrame(Some(CFrame::new(v3(&a[0..3]), Matrix3::new(v3(&a[3..6]), v3(&a[6..9]), v3(&a[9..12])))))
            }
        }
        "Int64" => Variant::Int64(v.as_i64().unwrap()),
        "Ray" => Variant::Ray(Ray::new(v3(&a[0..3]), v3(&a[3..6]))),
        "Faces" => Variant::Faces(Faces::from_bits(v.as_u64().unwrap() as u8).expect("faces bits")),
        "Axes" => Variant::Axes(Axes::from_bits(v.as_u64().unwrap() as u8).expect("axes bits")),
        "Enum" => Variant::Enum(Enum::from_u32(v.as_u64().unwrap() as u32)),
        "Vector3int16" => Variant::Vector3int16(Vector3int16::new(a[0].as_i64().unwrap() as i16, a[1].as_i64().unwrap() as i16, a[2].as_i64().unwrap() as i16)),
        "Color3uint8" => Variant::Color3uint8(Color3uint8::new(a[0].as_u64().unwrap() as u8, a[1].as_u64().unwrap() as u8, a[2].as_u64().unwrap() as u8)),
        "PhysicalProperties" => {
            if v.is_null() {
                Variant::PhysicalProperties(PhysicalProperties::Default)
            } else {
                Variant::PhysicalProperties(PhysicalProperties::Custom(CustomPhysicalProperties {
                    density: f(&a[0]),
                    friction: f(&a[1]),
                    elasticity: f(&a[2]),
                    friction_weight: f(&a[3]),
                    elasticity_weight: f(&a[4]),
                }))
            }
        }
        other => panic!("replayer: unsupported attribute kind {}", other),
    }
}

/// value from the Python side's field dictionary (FIELDS in vlib/mirsym/bincheck.py), fixed-size kinds only
fn build_fields(kind: &str, d: &Value) -> Variant {
    let u = |k: &str| d[k].as_u64().unwrap();
    let fl = |k: &str| f32::from_bits(u(k) as u32);
    match kind {
        "Bool" => Variant::Bool(d["v"].as_bool().unwrap_or_else(|| u("v") != 0)),
        "Int32" => Variant::Int32(u("v") as u32 as i32),
        "Int64" => Variant::Int64(u("v") as i64),
        "Float32" => Variant::Float32(fl("v")),
        "Enum" => Variant::Enum(Enum::from_u32(u("v") as u32)),
        "Vector3" => Variant::Vector3(Vector3::new(fl("x"), fl("y"), fl("z"))),
        "Color3" => Variant::Color3(Color3::new(fl("r"), fl("g"), fl("b"))),
        "Color3uint8" => Variant::Color3uint8(Color3uint8::new(u("r") as u8, u("g") as u8, u("b") as u8)),
        "SharedString" => Variant::SharedString(SharedString::new(bytes(&d["bytes"]))),
        "Float64" => Variant::Float64(f64::from_bits(u("v"))),
        "SecurityCapabilities" => Variant::SecurityCapabilities(SecurityCapabilities::from_bits(u("v"))),
        other => panic!("replayer: unsupported field-dict kind {}", other),
    }
}

fn fb(x: f32) -> Value {
    json!(x.to_bits())
}

/// bit-exact view of a decoded value
fn view(v: &Variant) -> Value {
    match v {
        Variant::BinaryString(b) => json!({"BinaryString": AsRef::<[u8]>::as_ref(b).to_vec()}),
        Variant::String(s) => json!({"String": s.as_bytes().to_vec()}),
        Variant::Bool(b) => json!({ "Bool": b }),
        Variant::Int32(n) => json!({ "Int32": n }),
        Variant::Float32(x) => json!({"Float32": x.to_bits()}),
        Variant::Float64(x) => json!({"Float64": x.to_bits()}),
        Variant::UDim(u) => json!({"UDim": [u.scale.to_bits(), u.offset]}),
        Variant::UDim2(u) => json!({"UDim2": [u.x.scale.to_bits(), u.x.offset, u.y.scale.to_bits(), u.y.offset]}),
        Variant::BrickColor(c) => json!({"BrickColor": *c as u16}),
        Variant::Color3(c) => json!({"Color3": [fb(c.r), fb(c.g), fb(c.b)]}),
        Variant::Vector2(c) => json!({"Vector2": [fb(c.x), fb(c.y)]}),
        Variant::Vector3(c) => json!({"Vector3": [fb(c.x), fb(c.y), fb(c.z)]}),
        Variant::NumberRange(r) => json!({"NumberRange": [fb(r.min), fb(r.max)]}),
        Variant::Rect(r) => json!({"Rect": [fb(r.min.x), fb(r.min.y), fb(r.max.x), fb(r.max.y)]}),
        Variant::CFrame(c) => {
            let o = &c.orientation;
            json!({"CFrame": [fb(c.position.x), fb(c.position.y), fb(c.position.z), fb(o.x.x), fb(o.x.y), fb(o.x.z), fb(o.y.x), fb(o.y.y), fb(o.y.z), fb(o.z.x), fb(o.z.y), fb(o.z.z)]})
        }
        Variant::EnumItem(e) => json!({"EnumItem": [e.ty.as_bytes().to_vec(), e.value]}),
        Variant::NumberSequence(s) => json!({"NumberSequence": s.keypoints.iter().map(|k| json!([fb(k.time), fb(k.value), fb(k.envelope)])).collect::<Vec<_>>()}),
        Variant::ColorSequence(s) => json!({"ColorSequence": s.keypoints.iter().map(|k| json!([fb(k.time), fb(k.color.r), fb(k.color.g), fb(k.color.b)])).collect::<Vec<_>>()}),
        Variant::Font(x) => json!({"Font": [x.weight.as_u16(), x.style.as_u8(), x.family.as_bytes().to_vec(), x.cached_face_id.as_ref().map(|s| s.as_bytes().to_vec())]}),
        Variant::Int64(n) => json!({ "Int64": n }),
        Variant::Ray(r) => json!({"Ray": [fb(r.origin.x), fb(r.origin.y), fb(r.origin.z), fb(r.direction.x), fb(r.direction.y), fb(r.direction.z)]}),
        Variant::Faces(x) => json!({"Faces": x.bits()}),
        Variant::Axes(x) => json!({"Axes": x.bits()}),
        Variant::Enum(e) => json!({"Enum": e.to_u32()}),
        Variant::Vector3int16(c) => json!({"Vector3int16": [c.x, c.y, c.z]}),
        Variant::Color3uint8(c) => json!({"Color3uint8": [c.r, c.g, c.b]}),
        Variant::PhysicalProperties(PhysicalProperties::Default) => json!({"PhysicalProperties": null}),
        Variant::PhysicalProperties(PhysicalProperties::Custom(c)) => {
            json!({"PhysicalProperties": [fb(c.density), fb(c.friction), fb(c.elasticity), fb(c.friction_weight), fb(c.elasticity_weight)]})
        }
        Variant::SharedString(x) => json!({"SharedString": x.data().to_vec()}),
        Variant::OptionalCFrame(None) => json!({"OptionalCFrame": null}),
        Variant::OptionalCFrame(Some(c)) => view(&Variant::CFrame(*c)),
        Variant::UniqueId(u) => json!({"UniqueId": [u.index(), u.time(), u.random()]}),
        Variant::SecurityCapabilities(c) => json!({"SecurityCapabilities": c.bits()}),
        other => json!({ "Other": format!("{:?}", other) }),
    }
}

/// bit-exact view of a decoded DOM: preorder list of instances; Ref values as preorder positions
fn tree_view(dom: &rbx_dom_weak::WeakDom) -> Value {
    let mut order = Vec::new();
    let mut stack = vec![dom.root_ref()];
    while let Some(r) = stack.pop() {
        order.push(r);
        let inst = dom.get_by_ref(r).unwrap();
        for c in inst.children().iter().rev() {
            stack.push(*c);
        }
    }
    let pos = |r: Ref| order.iter().position(|x| *x == r);
    Value::Array(
        order
            .iter()
            .map(|r| {
                let inst = dom.get_by_ref(*r).unwrap();
                let mut props: Vec<(String, Value)> = inst
                    .properties
                    .iter()
                    .map(|(k, v)| {
                        let vv = match v {
                            Variant::Ref(t) => json!({"Ref": if t.is_none() { json!(null) } else { json!(pos(*t)) }}),
                            Variant::Content(c) => match c.value() {
                                ContentType::None => json!({"Content": null}),
                                ContentType::Uri(u) => json!({"Content": {"Uri": u.as_bytes().to_vec()}}),
                                ContentType::Object(t) => json!({"Content": {"Object": if t.is_none() { json!(null) } else { json!(pos(*t)) }}}),
                                _ => json!({"Content": "?"}),
                            },
                            other => view(other),
                        };
                        (k.to_string(), vv)
                    })
                    .collect();
                props.sort_by(|a, b| a.0.cmp(&b.0));
                json!({"class": inst.class.as_str(), "name": inst.name.as_bytes().to_vec(), "parent": pos(inst.parent()), "props": props})
            })
            .collect(),
    )
}

fn custom_database(spec: &Value) -> rbx_reflection::ReflectionDatabase<'static> {
    use rbx_reflection::*;
    let mut db = ReflectionDatabase::new();
    for (cname, c) in spec.as_object().unwrap() {
        let mut cd = ClassDescriptor::new(cname.clone());
        for t in c.get("tags").and_then(|t| t.as_array()).cloned().unwrap_or_default() {
            if t == "Service" {
                cd.tags.insert(ClassTag::Service);
            }
        }
        if let Some(s) = c.get("superclass").and_then(|s| s.as_str()) {
            cd.superclass = Some(s.to_string().into());
        }
        if let Some(props) = c.get("properties").and_then(|p| p.as_object()) {
            for (pname, p) in props {
                let dt = if let Some(e) = p.get("enum_type").and_then(|e| e.as_str()) {
                    DataType::Enum(e.to_string().into())
                } else {
                    let vt: VariantType = serde_json::from_value(p["variant_type"].clone()).expect("variant type name");
                    DataType::Value(vt)
                };
                let mut pd = PropertyDescriptor::new(pname.clone(), dt);
                if let Some(kind) = p.get("kind").and_then(|k| k.as_array()) {
                    pd.kind = match kind[0].as_str().unwrap() {
                        "Alias" => PropertyKind::Alias { alias_for: kind[1].as_str().unwrap().to_string().into() },
                        _ => PropertyKind::Canonical {
                            serialization: match &kind[1] {
                                Value::String(s) if s == "DoesNotSerialize" => PropertySerialization::DoesNotSerialize,
                                Value::Array(a) if a[0] == "Migrate" => PropertySerialization::Migrate(
                                    serde_json::from_value(json!({"To": a[1], "Migration": a[2]})).expect("migration spec"),
                                ),
                                Value::Array(a) => PropertySerialization::SerializesAs(a[1].as_str().unwrap().to_string().into()),
                                _ => PropertySerialization::Serializes,
                            },
                        },
                    };
                }
                cd.properties.insert(pname.clone().into(), pd);
            }
        }
        if let Some(defs) = c.get("defaults").and_then(|p| p.as_object()) {
            for (pname, d) in defs {
                cd.default_properties.insert(pname.clone().into(), build_fields(d[0].as_str().unwrap(), &d[1]));
            }
        }
        db.classes.insert(cname.clone().into(), cd);
    }
    db
}

fn decoded(a: &Attributes) -> Value {
    Value::Array(a.iter().map(|(k, v)| json!([k.as_bytes().to_vec(), view(v)])).collect())
}

/// reader following a schedule: each entry is the number of bytes to hand out (0 = return ErrorKind::Interrupted)
struct Choppy {
    data: Vec<u8>,
    pos: usize,
    schedule: Vec<usize>,
    step: usize,
}

impl Read for Choppy {
    fn read(&mut self, buf: &mut [u8]) -> std::io::Result<usize> {
        let rem = self.data.len() - self.pos;
        let mut n = buf.len().min(rem);
        if n > 0 && self.step < self.schedule.len() {
            let s = self.schedule[self.step];
            self.step += 1;
            if s == 0 {
                return Err(std::io::Error::from(std::io::ErrorKind::Interrupted));
            }
            n = n.min(s);
        }
        buf[..n].copy_from_slice(&self.data[self.pos..self.pos + n]);
        self.pos += n;
        Ok(n)
    }
}

pub fn main(args: &[String]) {
    match args[0].as_str() {
        "attr-decode" => {
            let data = unhex(&args[1]);
            match Attributes::from_reader(&data[..]) {
                Ok(a) => println!("{}", json!({"ok": decoded(&a)})),
                Err(e) => println!("{}", json!({"err": e.to_string()})),
            }
        }
        "attr-decode-choppy" => {
            let data = unhex(&args[1]);
            let schedule: Vec<usize> = serde_json::from_str(&args[2]).unwrap();
            let r = Choppy { data, pos: 0, schedule, step: 0 };
            match Attributes::from_reader(r) {
                Ok(a) => println!("{}", json!({"ok": decoded(&a)})),
                Err(e) => println!("{}", json!({"err": e.to_string()})),
            }
        }
        "attr-roundtrip" => {
            let sc: Value = serde_json::from_str(&std::fs::read_to_string(&args[1]).unwrap()).unwrap();
            let mut a = Attributes::new();
            for e in sc["entries"].as_array().unwrap() {
                a.insert(string(&e["name"]), build(e["kind"].as_str().unwrap(), &e["v"]));
            }
            let mut out = Vec::new();
            let w = a.to_writer(&mut out);
            if let Err(e) = w {
                println!("{}", json!({"write_err": e.to_string()}));
                return;
            }
            match Attributes::from_reader(&out[..]) {
                Ok(b) => println!("{}", json!({"bytes": hex(&out), "input": decoded(&a), "decoded": decoded(&b)})),
                Err(e) => println!("{}", json!({"bytes": hex(&out), "input": decoded(&a), "read_err": e.to_string()})),
            }
        }
        "binary-decode" => {
            let data = unhex(&args[1]);
            match rbx_binary::from_reader(&data[..]) {
                Ok(dom) => println!("{}", json!({"ok": dom.descendants().count()})),
                Err(e) => println!("{}", json!({"err": e.to_string()})),
            }
        }
        "binary-decode-db" => {
            // rbx_binary::Deserializer with a database built from the JSON spec; prints the bit-exact tree view
            let data = unhex(&args[1]);
            let spec: Value = serde_json::from_str(&args[2]).unwrap();
            let db = custom_database(&spec);
            match rbx_binary::Deserializer::new().reflection_database(&db).deserialize(&data[..]) {
                Ok(dom) => println!("{}", json!({"ok": tree_view(&dom)})),
                Err(e) => println!("{}", json!({"err": e.to_string()})),
            }
        }
        "material-colors" => {
            // {"mode":"encode","set":[[name,[r,g,b]],..]} | {"mode":"decode","blob":[..]}
            use std::str::FromStr;
            let spec: Value = serde_json::from_str(&args[1]).unwrap();
            let names = ["Grass", "Slate", "Concrete", "Brick", "Sand", "WoodPlanks", "Rock", "Glacier", "Snow", "Sandstone", "Mud", "Basalt", "Ground", "CrackedLava", "Asphalt", "Cobblestone", "Ice", "LeafyGrass", "Salt", "Limestone", "Pavement"];
            let colors = |m: &MaterialColors| -> Vec<Vec<u8>> {
                names.iter().map(|n| { let c = m.get_color(TerrainMaterials::from_str(n).unwrap()); vec![c.r, c.g, c.b] }).collect()
            };
            if spec["mode"] == "encode" {
                let mut m = MaterialColors::new();
                for e in spec["set"].as_array().unwrap() {
                    let c = bytes(&e[1]);
                    m.set_color(TerrainMaterials::from_str(e[0].as_str().unwrap()).unwrap(), Color3uint8::new(c[0], c[1], c[2]));
                }
                let blob = m.encode();
                let back = MaterialColors::decode(&blob);
                println!("{}", json!({"blob": blob, "colors": colors(&m), "colors_after_roundtrip": back.ok().map(|b| colors(&b))}));
            } else {
                let blob = bytes(&spec["blob"]);
                match MaterialColors::decode(&blob) {
                    Ok(m) => println!("{}", json!({"decoded": true, "colors": colors(&m), "reencoded": m.encode()})),
                    Err(e) => println!("{}", json!({"decoded": false, "err": e.to_string()})),
                }
            }
        }
        "brick-name" => {
            // {"name":[bytes]}: BrickColor::from_name on the string; prints the number of the result
            let spec: Value = serde_json::from_str(&args[1]).unwrap();
            match String::from_utf8(bytes(&spec["name"])) {
                Ok(name) => println!("{}", json!({"number": BrickColor::from_name(&name).map(|c| c as u16)})),
                Err(_) => println!("{}", json!({"number": null, "note": "not UTF-8: no &str with these bytes exists"})),
            }
        }
        "tags" => {
            // {"mode":"encode","names":[[bytes]..]} | {"mode":"decode","blob":[..]}
            let spec: Value = serde_json::from_str(&args[1]).unwrap();
            let list = |t: &Tags| -> Vec<Vec<u8>> { t.iter().map(|s| s.as_bytes().to_vec()).collect() };
            if spec["mode"] == "encode" {
                let t: Tags = spec["names"].as_array().unwrap().iter().map(|n| string(n)).collect::<Vec<String>>().into();
                let blob = t.encode();
                let back = Tags::decode(&blob);
                println!("{}", json!({"blob": blob, "tags_after_roundtrip": back.ok().map(|b| list(&b))}));
            } else {
                match Tags::decode(&bytes(&spec["blob"])) {
                    Ok(t) => println!("{}", json!({"tags": list(&t), "reencoded": t.encode()})),
                    Err(e) => println!("{}", json!({"tags": null, "err": e.to_string()})),
                }
            }
        }
        "binary-encode" => {
            // {"class": C, "prop": P, "values": [{"kind":K,"v":..}..], "db": {...}}: one instance per value under the root,
            // written with compression off through the real Serializer, then read back; prints the file and the decoded view
            let spec: Value = serde_json::from_str(&std::fs::read_to_string(&args[1]).unwrap()).unwrap();
            let db = custom_database(&spec["db"]);
            let mut dom = rbx_dom_weak::WeakDom::new(rbx_dom_weak::InstanceBuilder::new("DataModel"));
            let root = dom.root_ref();
            let mut refs = Vec::new();
            if let Some(insts) = spec.get("instances").and_then(|x| x.as_array()) {
                for (i, e) in insts.iter().enumerate() {
                    let mut b = rbx_dom_weak::InstanceBuilder::new(spec["class"].as_str().unwrap()).with_name(format!("N{}", i + 1));
                    for p in e.as_array().unwrap() {
                        b = b.with_property(p[0].as_str().unwrap(), build_fields(p[1].as_str().unwrap(), &p[2]));
                    }
                    refs.push(dom.insert(root, b));
                }
            }
            for (i, e) in spec["values"].as_array().cloned().unwrap_or_default().iter().enumerate() {
                let b = rbx_dom_weak::InstanceBuilder::new(spec["class"].as_str().unwrap())
                    .with_name(format!("N{}", i + 1))
                    .with_property(spec["prop"].as_str().unwrap(), build(e["kind"].as_str().unwrap(), &e["v"]));
                refs.push(dom.insert(root, b));
            }
            let mut out = Vec::new();
            let r = rbx_binary::Serializer::new()
                .reflection_database(&db)
                .compression_type(rbx_binary::CompressionType::None)
                .serialize(&mut out, &dom, &refs);
            match r {
                Err(e) => println!("{}", json!({"write_err": e.to_string()})),
                Ok(()) => match rbx_binary::Deserializer::new().reflection_database(&db).deserialize(&out[..]) {
                    Ok(back) => println!("{}", json!({"file": hex(&out), "decoded": tree_view(&back)})),
                    Err(e) => println!("{}", json!({"file": hex(&out), "read_err": e.to_string()})),
                },
            }
        }
        "binary-tree" => {
            // {"db":..., "nodes":[{"class","parent": idx|null, "ref": T?, "content": T?}], "roots":[idx..]} with T = {"node":k} | {"none":1} |
            // {"outside":1} | {"uri":[bytes]}: the forest is written (selected roots only) and read back
            let spec: Value = serde_json::from_str(&std::fs::read_to_string(&args[1]).unwrap()).unwrap();
            let db = custom_database(&spec["db"]);
            let mut dom = rbx_dom_weak::WeakDom::new(rbx_dom_weak::InstanceBuilder::new("DataModel"));
            let root = dom.root_ref();
            let outside = dom.insert(root, rbx_dom_weak::InstanceBuilder::new("Outside"));
            let mut refs: Vec<Ref> = Vec::new();
            let nodes = spec["nodes"].as_array().unwrap();
            for (i, n) in nodes.iter().enumerate() {
                let parent = match n["parent"].as_u64() {
                    Some(k) => refs[k as usize],
                    None => root,
                };
                refs.push(dom.insert(parent, rbx_dom_weak::InstanceBuilder::new(n["class"].as_str().unwrap()).with_name(format!("N{}", i + 1))));
            }
            let target = |t: &Value| -> Ref {
                if let Some(k) = t.get("node").and_then(|k| k.as_u64()) {
                    refs[k as usize]
                } else if t.get("outside").is_some() {
                    outside
                } else {
                    Ref::none()
                }
            };
            for (i, n) in nodes.iter().enumerate() {
                if let Some(t) = n.get("ref").filter(|t| !t.is_null()) {
                    dom.get_by_ref_mut(refs[i]).unwrap().properties.insert("R".into(), Variant::Ref(target(t)));
                }
                if let Some(t) = n.get("content").filter(|t| !t.is_null()) {
                    let c = if let Some(u) = t.get("uri") {
                        Content::from_uri(string(u))
                    } else if t.get("none").is_some() {
                        Content::none()
                    } else {
                        Content::from_referent(target(t))
                    };
                    dom.get_by_ref_mut(refs[i]).unwrap().properties.insert("C".into(), Variant::Content(c));
                }
            }
            let roots: Vec<Ref> = spec["roots"].as_array().unwrap().iter().map(|k| refs[k.as_u64().unwrap() as usize]).collect();
            let mut out = Vec::new();
            let w = rbx_binary::Serializer::new().reflection_database(&db).compression_type(rbx_binary::CompressionType::None).serialize(&mut out, &dom, &roots);
            match w {
                Err(e) => println!("{}", json!({"write_err": e.to_string()})),
                Ok(()) => match rbx_binary::Deserializer::new().reflection_database(&db).deserialize(&out[..]) {
                    Ok(back) => println!("{}", json!({"file": hex(&out), "decoded": tree_view(&back)})),
                    Err(e) => println!("{}", json!({"file": hex(&out), "read_err": e.to_string()})),
                },
            }
        }
        "binary-det" => {
            // {"db":..., "nodes":[{"class","parent" (index or null = root's child),"props":[[name,kind,fields]..]}]}: the DOM is written,
            // written again with every property list reversed, and loaded + saved again; all three outputs must be equal
            let spec: Value = serde_json::from_str(&std::fs::read_to_string(&args[1]).unwrap()).unwrap();
            let db = custom_database(&spec["db"]);
            let build_dom = |rev: bool| {
                let mut dom = rbx_dom_weak::WeakDom::new(rbx_dom_weak::InstanceBuilder::new("DataModel"));
                let root = dom.root_ref();
                let mut refs: Vec<Ref> = Vec::new();
                for (i, n) in spec["nodes"].as_array().unwrap().iter().enumerate() {
                    let mut b = rbx_dom_weak::InstanceBuilder::new(n["class"].as_str().unwrap()).with_name(format!("N{}", i + 1));
                    let mut ps: Vec<&Value> = n["props"].as_array().unwrap().iter().collect();
                    if rev {
                        ps.reverse();
                    }
                    for p in ps {
                        b = b.with_property(p[0].as_str().unwrap(), build_fields(p[1].as_str().unwrap(), &p[2]));
                    }
                    let parent = match n["parent"].as_u64() {
                        Some(k) => refs[k as usize],
                        None => root,
                    };
                    refs.push(dom.insert(parent, b));
                }
                dom
            };
            let write = |dom: &rbx_dom_weak::WeakDom| {
                let mut out = Vec::new();
                rbx_binary::Serializer::new()
                    .reflection_database(&db)
                    .compression_type(rbx_binary::CompressionType::None)
                    .serialize(&mut out, dom, dom.root().children())
                    .map(|_| out)
                    .map_err(|e| e.to_string())
            };
            // same logical DOM, other table history: every property map is grown first (reserve) and filled in reverse order
            let build_churned = || {
                let mut dom = build_dom(true);
                let all: Vec<Ref> = dom.descendants().map(|i| i.referent()).collect();
                for r in all {
                    let inst = dom.get_by_ref_mut(r).unwrap();
                    let old: Vec<_> = inst.properties.drain().collect();
                    inst.properties.reserve(112);
                    for (k, v) in old.into_iter().rev() {
                        inst.properties.insert(k, v);
                    }
                }
                dom
            };
            let a = write(&build_dom(false));
            let b = write(&build_dom(true)).and_then(|x| write(&build_churned()).map(|y| if x == y { x } else { y }));
            let c = a.clone().and_then(|bytes| {
                rbx_binary::Deserializer::new().reflection_database(&db).deserialize(&bytes[..]).map_err(|e| e.to_string()).and_then(|d| write(&d))
            });
            println!("{}", json!({"first": a.as_ref().map(|x| hex(x)).unwrap_or_default(), "first_err": a.as_ref().err(), "reversed_equal": a == b, "resave_equal": a == c, "resave_err": c.as_ref().err()}));
        }
        "binary-bigstring" => {
            // a StringValue-like instance with a string of <n> equal bytes, written with each compression mode, read back
            let n: usize = args[1].parse().unwrap();
            let mut res = Vec::new();
            for (mode, cname) in [(rbx_binary::CompressionType::Lz4, "Lz4"), (rbx_binary::CompressionType::Zstd, "Zstd"), (rbx_binary::CompressionType::None, "None")] {
                let dom = rbx_dom_weak::WeakDom::new(
                    rbx_dom_weak::InstanceBuilder::new("UnknownClassX").with_property("Payload", Variant::BinaryString(BinaryString::from(vec![0x41u8; n]))),
                );
                let mut out = Vec::new();
                rbx_binary::Serializer::new().compression_type(mode).serialize(&mut out, &dom, &[dom.root_ref()]).unwrap();
                match rbx_binary::from_reader(&out[..]) {
                    Ok(back) => {
                        let inst = back.get_by_ref(back.root().children()[0]).unwrap();
                        let same = matches!(inst.properties.get(&"Payload".into()), Some(Variant::BinaryString(b)) if AsRef::<[u8]>::as_ref(b).len() == n);
                        res.push(json!([cname, out.len(), if same { "ok" } else { "mismatch" }]));
                    }
                    Err(e) => res.push(json!([cname, out.len(), {"err": e.to_string()}])),
                }
            }
            println!("{}", json!(res));
        }
        "binary-compress-scan" => {
            // compressed framing replay: Folders named "a"*k (k = 1..=256) written with each compression mode and read back
            let mut bad = Vec::new();
            for (mode, cname) in [(rbx_binary::CompressionType::Lz4, "Lz4"), (rbx_binary::CompressionType::Zstd, "Zstd")] {
                for k in 1..=256usize {
                    let name = "a".repeat(k);
                    let dom = rbx_dom_weak::WeakDom::new(rbx_dom_weak::InstanceBuilder::new("Folder").with_name(name.clone()));
                    let mut out = Vec::new();
                    let w = rbx_binary::Serializer::new().compression_type(mode).serialize(&mut out, &dom, &[dom.root_ref()]);
                    let ok = w.is_ok()
                        && match rbx_binary::from_reader(&out[..]) {
                            Ok(back) => back.root().children().len() == 1 && back.get_by_ref(back.root().children()[0]).unwrap().name == name,
                            Err(_) => false,
                        };
                    if !ok {
                        bad.push(json!([cname, k]));
                    }
                }
            }
            println!("{}", json!({"scanned": 512, "bad": bad}));
        }
        "binary-write-sink" => {
            // rbx_binary::to_writer of a one-Folder DOM into a sink with room for <room> bytes (short write up to the limit, then an error)
            struct Limited {
                room: usize,
                got: usize,
            }
            impl std::io::Write for Limited {
                fn write(&mut self, buf: &[u8]) -> std::io::Result<usize> {
                    let n = buf.len().min(self.room - self.got);
                    if n == 0 && !buf.is_empty() {
                        return Err(std::io::Error::new(std::io::ErrorKind::Other, "sink full"));
                    }
                    self.got += n;
                    Ok(n)
                }
                fn flush(&mut self) -> std::io::Result<()> {
                    Ok(())
                }
            }
            let room: usize = args[1].parse().unwrap();
            let dom = rbx_dom_weak::WeakDom::new(rbx_dom_weak::InstanceBuilder::new("Folder"));
            let mut full = Vec::new();
            rbx_binary::to_writer(&mut full, &dom, &[dom.root_ref()]).unwrap();
            let mut sink = Limited { room, got: 0 };
            let r = rbx_binary::to_writer(&mut sink, &dom, &[dom.root_ref()]);
            println!("{}", json!({"total": full.len(), "room": room, "written": sink.got, "ok": r.is_ok()}));
        }
        other => panic!("replayer bytes: unknown command {}", other),
    }
}
