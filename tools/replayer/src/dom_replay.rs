//! `replayer dom <scenario.json>`: rebuild concrete WeakDoms, run one real operation, dump what the public API shows.
//!
//! scenario: { "doms": [ { "root": "<hex>", "instances": [ {"ref","parent","children":[..],"name","class",
//!             "props": [[key, variant-json], ..]} ] } ],
//!             "op": "...", "args": {...} }
use std::collections::BTreeMap;
use std::str::FromStr;

use ahash::AHashMap;
use rbx_dom_weak::{Instance, InstanceBuilder, WeakDom};
use rbx_types::{Ref, UniqueId, Variant};
use serde_json::{json, Value};

fn r(v: &Value) -> Ref {
    Ref::from_str(v.as_str().expect("ref string")).expect("ref hex")
}

fn variant(v: &Value) -> Variant {
    // {"Ref": hex} | {"UniqueId": [index, time, random]} | {"Int32": n}
    let (k, x) = v.as_object().unwrap().iter().next().unwrap();
    match k.as_str() {
        "Ref" => Variant::Ref(r(x)),
        "UniqueId" => {
            let a = x.as_array().unwrap();
            Variant::UniqueId(UniqueId::new(
                a[0].as_u64().unwrap() as u32,
                a[1].as_u64().unwrap() as u32,
                a[2].as_i64().unwrap(),
            ))
        }
        "Int32" => Variant::Int32(x.as_i64().unwrap() as i32),
        other => panic!("replayer: unsupported variant {}", other),
    }
}

fn dump_variant(v: &Variant) -> Value {
    match v {
        Variant::Ref(x) => json!({ "Ref": x.to_string() }),
        Variant::UniqueId(u) => json!({"UniqueId": [u.index(), u.time(), u.random()]}),
        Variant::Int32(n) => json!({ "Int32": n }),
        other => json!({ "Other": format!("{:?}", other) }),
    }
}

fn build_dom(d: &Value) -> WeakDom {
    let mut map: AHashMap<Ref, Instance> = AHashMap::new();
    for n in d["instances"].as_array().unwrap() {
        let mut props = rbx_dom_weak::UstrMap::default();
        for p in n["props"].as_array().unwrap() {
            props.insert(rbx_dom_weak::ustr(p[0].as_str().unwrap()), variant(&p[1]));
        }
        let inst = Instance::verif_raw(
            r(&n["ref"]),
            r(&n["parent"]),
            n["children"].as_array().unwrap().iter().map(r).collect(),
            n["name"].as_str().unwrap().to_string(),
            rbx_dom_weak::ustr(n["class"].as_str().unwrap()),
            props,
        );
        map.insert(r(&n["ref"]), inst);
    }
    WeakDom::from_raw(r(&d["root"]), map)
}

fn build_builder(b: &Value) -> InstanceBuilder {
    let mut out = InstanceBuilder::new(b["class"].as_str().unwrap())
        .with_referent(r(&b["ref"]))
        .with_name(b["name"].as_str().unwrap());
    for p in b["props"].as_array().unwrap() {
        out = out.with_property(p[0].as_str().unwrap(), variant(&p[1]));
    }
    for c in b["children"].as_array().unwrap() {
        out = out.with_child(build_builder(c));
    }
    out
}

/// Which of the given ids does the DOM consider taken?  Observed through the public API only: a probe instance
/// carrying the id is inserted under the root; the id is regenerated iff the DOM's bookkeeping holds it.
fn probe_uids(dom: &mut WeakDom, probes: &[Value]) -> Vec<bool> {
    let root = dom.root_ref();
    let mut out = vec![];
    for p in probes {
        let a = p.as_array().unwrap();
        let u = UniqueId::new(a[0].as_u64().unwrap() as u32, a[1].as_u64().unwrap() as u32, a[2].as_i64().unwrap());
        let r = dom.insert(root, InstanceBuilder::new("UidProbe").with_property("UniqueId", u));
        out.push(dom.get_unique_id(r) != Some(u));
    }
    out
}

fn dump_all(mut dom: WeakDom, probes: &[Value]) -> (Value, Vec<bool>) {
    // descendants of the root, through the real iterator
    let root = dom.root_ref();
    let desc: Vec<String> = if dom.get_by_ref(root).is_some() {
        dom.descendants().take(10_000).map(|i| i.referent().to_string()).collect()
    } else {
        vec![]
    };
    // hidden bookkeeping observed through probes (adds "UidProbe" instances, filtered out of the dump below)
    let taken = if dom.get_by_ref(root).is_some() { probe_uids(&mut dom, probes) } else { vec![] };
    let (root_ref, map) = dom.into_raw();
    let probe_refs: Vec<Ref> = map.iter().filter(|(_, i)| i.class.as_str() == "UidProbe").map(|(k, _)| *k).collect();
    let mut insts = BTreeMap::new();
    for (k, inst) in map.iter() {
        if probe_refs.contains(k) {
            continue;
        }
        let mut props: Vec<(String, Value)> = inst
            .properties
            .iter()
            .map(|(pk, pv)| (pk.to_string(), dump_variant(pv)))
            .collect();
        props.sort_by(|a, b| a.0.cmp(&b.0));
        insts.insert(
            k.to_string(),
            json!({
                "referent": inst.referent().to_string(),
                "parent": inst.parent().to_string(),
                "children": inst.children().iter().filter(|c| !probe_refs.contains(c)).map(|c| c.to_string()).collect::<Vec<_>>(),
                "name": inst.name,
                "class": inst.class.to_string(),
                "props": props,
            }),
        );
    }
    (json!({"root": root_ref.to_string(), "instances": insts, "descendants": desc}), taken)
}

pub fn main(args: &[String]) {
    let text = std::fs::read_to_string(&args[0]).expect("scenario file");
    let sc: Value = serde_json::from_str(&text).expect("scenario json");
    let mut doms: Vec<WeakDom> = sc["doms"].as_array().unwrap().iter().map(build_dom).collect();
    let a = &sc["args"];
    let op = sc["op"].as_str().unwrap();
    let mut result: Vec<String> = vec![];
    if op == "builder" {
        // InstanceBuilder API: apply one method to a builder, then observe it through WeakDom::new
        let mut b = build_builder(&a["builder"]);
        let m = a["method"].as_str().unwrap();
        let x = || build_builder(&a["x"]);
        let y = || build_builder(&a["y"]);
        let pv = |k: &str| variant(&a[k]);
        match m {
            "with_child" => b = b.with_child(x()),
            "add_child" => b.add_child(x()),
            "with_children" => b = b.with_children(vec![x(), y()]),
            "add_children" => b.add_children(vec![x(), y()]),
            "with_property" => b = b.with_property("NewProp", pv("val")),
            "add_property" => b.add_property("NewProp", pv("val")),
            "with_properties" => b = b.with_properties(vec![("NewProp", pv("val")), ("Value", pv("val2"))]),
            "add_properties" => b.add_properties(vec![("NewProp", pv("val")), ("Value", pv("val2"))]),
            "with_name" => b = b.with_name(a["name"].as_str().unwrap()),
            "set_name" => b.set_name(a["name"].as_str().unwrap()),
            "with_class" => b = b.with_class(a["name"].as_str().unwrap()),
            "set_class" => b.set_class(a["name"].as_str().unwrap()),
            "with_referent" => b = b.with_referent(r(&a["newref"])),
            other => panic!("replayer: unknown builder method {}", other),
        }
        doms.push(WeakDom::new(b));
    } else {
    match op {
        "destroy" => doms[0].destroy(r(&a["a"])),
        "transfer_within" => doms[0].transfer_within(r(&a["a"]), r(&a["b"])),
        "insert" => {
            let b = build_builder(&a["builder"]);
            result.push(doms[0].insert(r(&a["a"]), b).to_string());
        }
        "transfer" => {
            let (s, d) = doms.split_at_mut(1);
            s[0].transfer(r(&a["a"]), &mut d[0], r(&a["b"]));
        }
        "clone_within" => result.push(doms[0].clone_within(r(&a["a"])).to_string()),
        "clone_into_external" => {
            let (s, d) = doms.split_at_mut(1);
            result.push(s[0].clone_into_external(r(&a["a"]), &mut d[0]).to_string());
        }
        "clone_multiple_into_external" => {
            let refs: Vec<Ref> = a["refs"].as_array().unwrap().iter().map(r).collect();
            let (s, d) = doms.split_at_mut(1);
            for x in s[0].clone_multiple_into_external(&refs, &mut d[0]) {
                result.push(x.to_string());
            }
        }
        other => panic!("replayer: unknown op {}", other),
    }
    }
    let empty = vec![];
    let probes = sc["probe_uids"].as_array().unwrap_or(&empty);
    let mut out: Vec<Value> = vec![];
    let mut taken: Vec<Vec<bool>> = vec![];
    for d in doms.into_iter() {
        let (v, t) = dump_all(d, probes);
        out.push(v);
        taken.push(t);
    }
    println!("{}", json!({"result": result, "doms": out, "uid_taken": taken}));
}
