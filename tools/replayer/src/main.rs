//! Native replayer: runs the real rbx-dom crates (built from /repo's working tree) on concrete
//! inputs produced by the solver-side engines and prints what is observable through public API.
use std::panic::{catch_unwind, AssertUnwindSafe};
use std::str::FromStr;

use rbx_types::{Ref, UniqueId};

mod dom_replay;
mod bytes_replay;
mod ss_replay;

fn print_forms() {
    let ids: [(u32, u32, i64); 7] = [
        (0, 0, 0),
        (1, 2, 3),
        (u32::MAX, u32::MAX, i64::MAX),
        (7, 9, -1),
        (0, 0, i64::MIN),
        (0x1234_5678, 0x9abc_def0, 0x0123_4567_89ab_cdef),
        (5, 6, -0x0123_4567_89ab_cdef),
    ];
    for (index, time, random) in ids {
        println!("uniqueid\t{},{},{}\t{}", index, time, random, UniqueId::new(index, time, random));
    }
    let refs: [u128; 5] = [0, 1, u128::MAX, 0x0123_4567_89ab_cdef_0123_4567_89ab_cdef, 1u128 << 127];
    for v in refs {
        let r = Ref::from_str(&format!("{:032x}", v)).unwrap();
        println!("ref\t{}\t{}", v, r);
    }
}

/// migrate <class> <property> <variant json>: apply the database's migration for that legacy property
fn migrate(args: &[String]) {
    use rbx_reflection::{PropertyKind, PropertySerialization};
    let db = rbx_reflection_database::get();
    let class = db.classes.get(args[0].as_str()).expect("class");
    let prop = class.properties.get(args[1].as_str()).expect("property");
    let value: rbx_types::Variant = serde_json::from_str(&args[2]).expect("variant json");
    match &prop.kind {
        PropertyKind::Canonical {
            serialization: PropertySerialization::Migrate(m),
        } => match m.perform(&value) {
            Ok(v) => println!("OK\t{}\t{}", m.new_property_name, serde_json::to_string(&v).unwrap()),
            Err(e) => println!("ERR\t{}", e),
        },
        _ => println!("NOT-MIGRATING"),
    }
}

fn main() {
    let args: Vec<String> = std::env::args().collect();
    let cmd = args.get(1).map(|s| s.as_str()).unwrap_or("");
    // panics are reported as an outcome, not as a crash of the replayer
    std::panic::set_hook(Box::new(|_| {}));
    let r = catch_unwind(AssertUnwindSafe(|| match cmd {
        "print-forms" => print_forms(),
        "migrate" => migrate(&args[2..]),
        "sstring" => ss_replay::main(&args[2..]),
        "dom" => dom_replay::main(&args[2..]),
        "bytes" => bytes_replay::main(&args[2..]),
        _ => {
            eprintln!("usage: replayer print-forms | dom <json> | bytes <what> <hex>");
            std::process::exit(64);
        }
    }));
    if let Err(e) = r {
        let msg = e
            .downcast_ref::<String>()
            .cloned()
            .or_else(|| e.downcast_ref::<&str>().map(|s| s.to_string()))
            .unwrap_or_default();
        println!("PANIC\t{}", msg);
        std::process::exit(3);
    }
}
