//! Native replayer: runs the real rbx-dom crates (built from /repo's working tree) on concrete
//! inputs produced by the solver-side engines and prints what is observable through public API.
use std::panic::{catch_unwind, AssertUnwindSafe};
use std::str::FromStr;

use rbx_types::{Ref, UniqueId};

mod dom_replay;
mod bytes_replay;
mod ss_replay;

fn print_forms() {
    let ids: [(u32, u32, i64); 7] = [
        (0, 0, 0),
        (1, 2, 3),
        (u32::MAX, u32::MAX, i64::MAX),
        (7, 9, -1),
        (0, 0, i64::MIN),
        (0x1234_5678, 0x9abc_def0, 0x0123_4567_89ab_cdef),
        (5, 6, -0x0123_4567_89ab_cdef),
    ];
    for (index, time, random) in ids {
        println!("uniqueid\t{},{},{}\t{}", index, time, random, UniqueId::new(index, time, random));
    }
    let refs: [u128; 5] = [0, 1, u128::MAX, 0x0123_4567_89ab_cdef_0123_4567_89ab_cdef, 1u128 << 127];
    for v in refs {
        let r = Ref::from_str(&format!("{:032x}", v)).unwrap();
        println!("ref\t{}\t{}", v, r);
    }
}

/// migrate <class> <property> <variant json>: apply the database's migration for that legacy property
fn migrate(args: &[String]) {
    use rbx_reflection::{PropertyKind, PropertySerialization};
    let db = rbx_reflection_database::get();
    let class = db.classes.get(args[0].as_str()).expect("class");
    let prop = class.properties.get(args[1].as_str()).expect("property");
    let value: rbx_types::Variant = serde_json::from_str(&args[2]).expect("variant json");
    match &prop.kind {
        PropertyKind::Canonical {
            serialization: PropertySerialization::Migrate(m),
        } => match m.perform(&value) {
            Ok(v) => println!("OK\t{}\t{}", m.new_property_name, serde_json::to_string(&v).unwrap()),
            Err(e) => println!("ERR\t{}", e),
        },
        _ => println!("NOT-MIGRATING"),
    }
}

/// the lookups the codecs perform, on the real database, compared with a direct walk of the maps
fn lookups() {
    use rbx_reflection::{PropertyKind, PropertySerialization};
    let db = rbx_reflection_database::get();
    let mut chain_failures = Vec::new();
    let mut default_failures = Vec::new();
    let mut serialized_failures = Vec::new();
    for (cname, class) in &db.classes {
        // direct walk
        let mut walk = vec![class.name.to_string()];
        let mut cur = class;
        while let Some(s) = &cur.superclass {
            cur = &db.classes[s];
            walk.push(cur.name.to_string());
        }
        let got: Option<Vec<String>> = db.superclasses(class).map(|v| v.iter().map(|c| c.name.to_string()).collect());
        let it: Vec<String> = db.superclasses_iter(class).map(|c| c.name.to_string()).collect();
        if got.as_ref() != Some(&walk) || it != walk {
            chain_failures.push(cname.to_string());
        }
        // every default defined anywhere on the chain is found from this class, nearest definition wins
        let mut seen = std::collections::HashSet::new();
        let mut cur = Some(class);
        while let Some(c) = cur {
            for (pname, value) in &c.default_properties {
                if seen.insert(pname.to_string()) {
                    match db.find_default_property(class, pname) {
                        Some(v) if format!("{:?}", v) == format!("{:?}", value) => {}
                        _ => default_failures.push(format!("{}.{}", cname, pname)),
                    }
                }
            }
            cur = c.superclass.as_ref().map(|s| &db.classes[s]);
        }
        for (pname, p) in &class.properties {
            if let PropertyKind::Canonical { serialization: PropertySerialization::SerializesAs(t) } = &p.kind {
                let r = match rbx_binary_find(db, cname, pname) {
                    Some(r) => Some(r),
                    // not observable: no default and no sample value for this type
                    None if db.find_default_property(class, pname).is_none() && sample_value(&p.data_type).is_none() => continue,
                    None => None,
                };
                if r.as_deref() != Some(t.as_ref()) {
                    serialized_failures.push(format!("{}.{} -> {} (got {:?})", cname, pname, t, r));
                }
            }
        }
    }
    chain_failures.sort();
    default_failures.sort();
    serialized_failures.sort();
    println!(
        "{}",
        serde_json::json!({"classes": db.classes.len(), "chain_failures": chain_failures.len(), "chain_examples": &chain_failures[..chain_failures.len().min(5)],
            "default_failures": default_failures.len(), "default_examples": &default_failures[..default_failures.len().min(5)],
            "serialized_failures": serialized_failures.len(), "serialized_examples": &serialized_failures[..serialized_failures.len().min(5)]})
    );
}

fn sample_value(dt: &rbx_reflection::DataType) -> Option<rbx_types::Variant> {
    use rbx_types::{Variant, VariantType};
    Some(match dt {
        rbx_reflection::DataType::Enum(_) => Variant::Enum(rbx_types::Enum::from_u32(1)),
        rbx_reflection::DataType::Value(t) => match t {
            VariantType::Bool => Variant::Bool(true),
            VariantType::Int32 => Variant::Int32(3),
            VariantType::Int64 => Variant::Int64(3),
            VariantType::Float32 => Variant::Float32(1.5),
            VariantType::Float64 => Variant::Float64(1.5),
            VariantType::String => Variant::String("x".to_owned()),
            VariantType::BinaryString => Variant::BinaryString(rbx_types::BinaryString::from(vec![1u8])),
            VariantType::Vector3 => Variant::Vector3(rbx_types::Vector3::new(1.0, 2.0, 3.0)),
            VariantType::Color3 => Variant::Color3(rbx_types::Color3::new(0.5, 0.25, 1.0)),
            _ => return None,
        },
        _ => return None,
    })
}

/// rbx_binary's find_property_descriptors is crate-private: observe it through the writer - the name under which a property of a
/// bare instance of the class is written is the serialized descriptor's name
fn rbx_binary_find(db: &'static rbx_reflection::ReflectionDatabase<'static>, class: &str, prop: &str) -> Option<String> {
    let default = match db.find_default_property(&db.classes[class], prop) {
        Some(v) => v.clone(),
        None => sample_value(&db.classes[class].properties[prop].data_type)?,
    };
    let dom = rbx_dom_weak::WeakDom::new(rbx_dom_weak::InstanceBuilder::new(class).with_property(prop, default));
    let mut out = Vec::new();
    rbx_binary::Serializer::new().compression_type(rbx_binary::CompressionType::None).serialize(&mut out, &dom, &[dom.root_ref()]).ok()?;
    // PROP chunk names in the file
    let mut names = Vec::new();
    let mut pos = 32;
    while pos + 16 <= out.len() {
        let name = &out[pos..pos + 4];
        let len = u32::from_le_bytes([out[pos + 8], out[pos + 9], out[pos + 10], out[pos + 11]]) as usize;
        let body = &out[pos + 16..pos + 16 + len];
        if name == b"PROP" {
            let n = u32::from_le_bytes([body[4], body[5], body[6], body[7]]) as usize;
            names.push(String::from_utf8_lossy(&body[8..8 + n]).to_string());
        }
        pos += 16 + len;
    }
    names.into_iter().find(|n| n != "Name")
}

fn main() {
    let args: Vec<String> = std::env::args().collect();
    let cmd = args.get(1).map(|s| s.as_str()).unwrap_or("");
    // panics are reported as an outcome, not as a crash of the replayer
    std::panic::set_hook(Box::new(|_| {}));
    let r = catch_unwind(AssertUnwindSafe(|| match cmd {
        "print-forms" => print_forms(),
        "migrate" => migrate(&args[2..]),
        "lookups" => lookups(),
        "uniqueid-race" => {
            // <threads> <calls>: real UniqueId::now on real threads; counts ids returned more than once
            let threads: usize = args[2].parse().unwrap();
            let calls: usize = args[3].parse().unwrap();
            let hs: Vec<_> = (0..threads)
                .map(|_| std::thread::spawn(move || (0..calls).filter_map(|_| UniqueId::now().ok()).map(|u| (u.index(), u.time(), u.random())).collect::<Vec<_>>()))
                .collect();
            let mut all = Vec::new();
            for h in hs {
                all.extend(h.join().unwrap());
            }
            let total = all.len();
            all.sort();
            all.dedup();
            // the index counter wraps after 2^32 calls: stay far below
            let mut idx: Vec<u32> = all.iter().map(|x| x.0).collect();
            idx.sort();
            idx.dedup();
            println!("{{\"calls\": {}, \"duplicates\": {}, \"duplicate_indices\": {}}}", total, total - all.len(), total - idx.len());
        }
        "sstring" => ss_replay::main(&args[2..]),
        "dom" => dom_replay::main(&args[2..]),
        "bytes" => bytes_replay::main(&args[2..]),
        _ => {
            eprintln!("usage: replayer print-forms | dom <json> | bytes <what> <hex>");
            std::process::exit(64);
        }
    }));
    if let Err(e) = r {
        let msg = e
            .downcast_ref::<String>()
            .cloned()
            .or_else(|| e.downcast_ref::<&str>().map(|s| s.to_string()))
            .unwrap_or_default();
        println!("PANIC\t{}", msg);
        std::process::exit(3);
    }
}
