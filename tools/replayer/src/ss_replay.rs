//! `replayer sstring <scenario.json>`: force one interleaving of SharedString new/clone/drop on real threads.
//!
//! scenario: { "setup": [content,...]            handles created before the threads start, owned by thread 0
//!             "programs": [[["new", content] | ["clone", i] | ["drop", i], ...], ...]   i = index into the thread's live handles
//!             "grants": [tid, ...]  }            each grant lets that thread run to its next parking point
//! Threads park before every operation and at the `drop:after_into_inner` hook; `new:before_lock` does not park
//! (nothing visible happens between the start of `new` and that point).
use std::cell::Cell;
use std::sync::{Arc, Condvar, Mutex};

use rbx_types::SharedString;
use serde_json::{json, Value};

struct Ctl {
    turn: Option<usize>,
    parked: Vec<bool>,
    done: Vec<bool>,
    panics: Vec<String>,
}

static CTL: Mutex<Option<Arc<(Mutex<Ctl>, Condvar)>>> = Mutex::new(None);

thread_local! {
    static TID: Cell<Option<usize>> = Cell::new(None);
}

fn park() {
    let tid = match TID.with(|t| t.get()) {
        Some(t) => t,
        None => return,
    };
    let ctl = CTL.lock().unwrap().as_ref().unwrap().clone();
    let (m, cv) = &*ctl;
    let mut g = m.lock().unwrap();
    g.parked[tid] = true;
    g.turn = None;
    cv.notify_all();
    while g.turn != Some(tid) {
        g = cv.wait(g).unwrap();
    }
    g.parked[tid] = false;
}

fn hook(site: &'static str) {
    if site == "drop:after_into_inner" {
        park();
    }
}

pub fn main(args: &[String]) {
    let text = std::fs::read_to_string(&args[0]).expect("scenario file");
    let sc: Value = serde_json::from_str(&text).expect("scenario json");
    let programs = sc["programs"].as_array().unwrap().clone();
    let n = programs.len();
    let ctl = Arc::new((Mutex::new(Ctl { turn: None, parked: vec![false; n], done: vec![false; n], panics: vec![] }), Condvar::new()));
    *CTL.lock().unwrap() = Some(ctl.clone());
    // handles of each thread, shared with the controller for the final inspection
    let handles: Vec<Arc<Mutex<Vec<(String, SharedString)>>>> = (0..n).map(|_| Arc::new(Mutex::new(vec![]))).collect();
    for c in sc["setup"].as_array().unwrap() {
        let s = c.as_str().unwrap().to_string();
        handles[0].lock().unwrap().push((s.clone(), SharedString::new(s.into_bytes())));
    }
    rbx_types::verif_hooks::set_yield_hook(Some(hook));
    let mut joins = vec![];
    for (tid, prog) in programs.into_iter().enumerate() {
        let hs = handles[tid].clone();
        let ctl2 = ctl.clone();
        joins.push(std::thread::spawn(move || {
            TID.with(|t| t.set(Some(tid)));
            let body = std::panic::catch_unwind(std::panic::AssertUnwindSafe(|| {
            for op in prog.as_array().unwrap() {
                park();
                match op[0].as_str().unwrap() {
                    "new" => {
                        let s = op[1].as_str().unwrap().to_string();
                        let h = SharedString::new(s.clone().into_bytes());
                        hs.lock().unwrap().push((s, h));
                    }
                    "clone" => {
                        let i = op[1].as_u64().unwrap() as usize;
                        let (s, h) = {
                            let g = hs.lock().unwrap();
                            (g[i].0.clone(), g[i].1.clone())
                        };
                        hs.lock().unwrap().push((s, h));
                    }
                    "drop" => {
                        let i = op[1].as_u64().unwrap() as usize;
                        let h = hs.lock().unwrap().remove(i);
                        drop(h);
                    }
                    other => panic!("unknown op {}", other),
                }
            }
            }));
            let (m, cv) = &*ctl2;
            let mut g = m.lock().unwrap();
            if let Err(e) = body {
                let msg = e.downcast_ref::<String>().cloned().or_else(|| e.downcast_ref::<&str>().map(|s| s.to_string())).unwrap_or_default();
                g.panics.push(format!("thread {}: {}", tid, msg));
            }
            g.done[tid] = true;
            g.turn = None;
            cv.notify_all();
        }));
    }
    // wait until every thread is parked before its first op
    {
        let (m, cv) = &*ctl;
        let mut g = m.lock().unwrap();
        while !(0..n).all(|i| g.parked[i] || g.done[i]) {
            g = cv.wait(g).unwrap();
        }
    }
    let mut granted = 0;
    for gnt in sc["grants"].as_array().unwrap() {
        let tid = gnt.as_u64().unwrap() as usize;
        let (m, cv) = &*ctl;
        let mut g = m.lock().unwrap();
        if g.done[tid] {
            if !g.panics.is_empty() {
                break;
            }
            println!("{}", json!({"error": format!("grant {} to finished thread {}", granted, tid)}));
            std::process::exit(2);
        }
        g.turn = Some(tid);
        cv.notify_all();
        while g.turn.is_some() {
            g = cv.wait(g).unwrap();
        }
        granted += 1;
    }
    // inspect: live handles (threads are parked or finished), buffer identity per content
    let mut live = vec![];
    for (tid, hs) in handles.iter().enumerate() {
        for (s, h) in hs.lock().unwrap().iter() {
            live.push(json!({"thread": tid, "content": s, "ptr": h.data().as_ptr() as usize, "data_ok": h.data() == s.as_bytes()}));
        }
    }
    let panics = { let (m, _) = &*ctl; m.lock().unwrap().panics.clone() };
    if !panics.is_empty() {
        println!("{}", json!({"live": live, "panics": panics}));
        std::process::exit(0);
    }
    let table_now = rbx_types::verif_hooks::cache_len();
    let all_done = { let (m, _) = &*ctl; let g = m.lock().unwrap(); (0..n).all(|i| g.done[i]) };
    let mut table_after_drop = Value::Null;
    if all_done {
        for j in joins {
            j.join().unwrap();
        }
        rbx_types::verif_hooks::set_yield_hook(None);
        for hs in handles.iter() {
            hs.lock().unwrap().clear();
        }
        table_after_drop = json!(rbx_types::verif_hooks::cache_len());
    }
    println!("{}", json!({"live": live, "table_len": table_now, "all_done": all_done, "table_len_after_dropping_all": table_after_drop}));
    std::process::exit(0);
}
