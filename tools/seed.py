#!/usr/bin/env python3
"""Confirm a seeded change (from a sub-agent) in a scratch worktree and run the checks against it.

usage: tools/seed.py <seed dir with patch.diff demo.rs meta.json> <worktree> <name> <property ids to run...>
 1. worktree at /repo's HEAD: patch applies, builds; demo FAILS with the patch and PASSES without it;
    the set of passing tests of the affected crates is unchanged by the patch (baseline computed once per worktree);
 2. patch applied to /repo, the named quick checks run, patch reverted;
 3. everything recorded in /verif/seeded/<name>/ (patch.diff, demo.rs, meta.json).
"""
import json, os, re, shutil, subprocess, sys, time

V = os.path.dirname(os.path.dirname(os.path.abspath(__file__)))
ENV = dict(os.environ, CARGO_NET_OFFLINE='true')


def sh(cmd, cwd=None, timeout=3600):
    p = subprocess.run(cmd, cwd=cwd, shell=True, env=ENV, stdout=subprocess.PIPE, stderr=subprocess.STDOUT, text=True, timeout=timeout)
    return p.returncode, p.stdout


def test_list(wt, crates):
    rc, out = sh('cargo test --offline --no-fail-fast %s 2>&1' % ' '.join('-p ' + c for c in crates), cwd=wt)
    ok = sorted(set(re.findall(r'^test (\S+) \.\.\. ok$', out, re.M)))
    return ok, out


def main():
    seed, wt, name = sys.argv[1], sys.argv[2], sys.argv[3]
    props = sys.argv[4:]
    if os.path.abspath(seed).startswith(os.path.abspath(wt) + os.sep):
        # the worktree is cleaned below (git clean): never leave the only copy of a seed inside it
        keep = os.path.join('/var/tmp', 'seed_in_' + name)
        shutil.rmtree(keep, ignore_errors=True)
        shutil.copytree(seed, keep)
        seed = keep
    meta = json.load(open(os.path.join(seed, 'meta.json')))
    patch = os.path.join(seed, 'patch.diff')
    demo_src = open(os.path.join(seed, 'demo.rs')).read()
    m = re.search(r'(?:Place at|place(?:d)? (?:it )?(?:at|in)|Path):?\s*`?([\w/\.\-]+\.rs)`?', demo_src, re.I)
    demo_path = m.group(1) if m else None
    m = re.search(r'(cargo test[^\n`]*)', demo_src)
    demo_cmd = m.group(1).strip() if m else None
    if demo_cmd and '--offline' not in demo_cmd:
        demo_cmd = demo_cmd.replace('cargo test', 'cargo test --offline')
    rec = dict(meta, name=name, verified_at=time.strftime('%Y-%m-%d %H:%M:%S'), demo_path=demo_path, demo_cmd=demo_cmd, steps=[])
    head = sh('git -C /repo rev-parse HEAD')[1].strip()
    sh('git checkout -q --detach %s && git checkout -- . && git clean -fdq -e target' % head, cwd=wt)
    crates = sorted(set(re.findall(r'^diff --git a/(\w+)/', open(patch).read(), re.M)))
    deps = {'rbx_types': ['rbx_types', 'rbx_dom_weak', 'rbx_binary', 'rbx_xml'], 'rbx_dom_weak': ['rbx_dom_weak', 'rbx_binary', 'rbx_xml'],
            'rbx_reflection': ['rbx_reflection', 'rbx_binary', 'rbx_xml'], 'rbx_binary': ['rbx_binary'], 'rbx_xml': ['rbx_xml']}
    run_crates = sorted({d for c in crates for d in deps.get(c, [c])})
    base_file = os.path.join(wt, 'target', 'baseline_%s_%s.json' % (head[:8], '_'.join(run_crates)))
    if os.path.exists(base_file):
        base = json.load(open(base_file))
    else:
        base, _ = test_list(wt, run_crates)
        os.makedirs(os.path.dirname(base_file), exist_ok=True)
        json.dump(base, open(base_file, 'w'))
    rec['steps'].append('baseline: %d passing tests in %s at %s' % (len(base), run_crates, head[:8]))
    ok_all = True
    rc, out = sh('git apply %s' % patch, cwd=wt)
    if rc != 0:
        rec['steps'].append('patch does not apply: ' + out[-300:]); ok_all = False
    else:
        with_patch, out = test_list(wt, run_crates)
        missing = sorted(set(base) - set(with_patch))
        rec['steps'].append('with patch: %d passing tests, previously passing tests now failing: %s' % (len(with_patch), missing[:5]))
        if missing or 'error: could not compile' in out or 'error[' in out:
            ok_all = False
            rec['steps'].append('compile/test problem: ' + out[-400:])
        if demo_path and demo_cmd:
            os.makedirs(os.path.dirname(os.path.join(wt, demo_path)), exist_ok=True)
            open(os.path.join(wt, demo_path), 'w').write(demo_src)
            rc1, out1 = sh(demo_cmd + ' 2>&1', cwd=wt)
            failed = rc1 != 0 and ('test result: FAILED' in out1 or 'panicked' in out1)
            rec['steps'].append('demo with patch: rc=%d failed=%s' % (rc1, failed))
            sh('git apply -R %s' % patch, cwd=wt)
            rc2, out2 = sh(demo_cmd + ' 2>&1', cwd=wt)
            passed = rc2 == 0 and 'test result: ok' in out2
            rec['steps'].append('demo without patch: rc=%d passed=%s' % (rc2, passed))
            ok_all = ok_all and failed and passed
            os.remove(os.path.join(wt, demo_path))
        else:
            rec['steps'].append('could not locate demo path/command in demo.rs header')
            ok_all = False
    sh('git checkout -- . && git clean -fdq -e target', cwd=wt)
    rec['confirmed'] = ok_all
    # run the checks on /repo with the patch
    rec['checks'] = {}
    if ok_all:
        rc, out = sh('git apply %s' % patch, cwd='/repo')
        try:
            for p in props:
                t = time.time()
                rc, out = sh('./check %s --tier quick 2>&1' % p, cwd=V, timeout=3600)
                viol = re.findall(r'^VIOLATION .*$', out, re.M)
                failing = re.findall(r'^  (\S+)\s+(fail|inconclusive)\s+(.*)$', out, re.M)
                rec['checks'][p] = dict(rc=rc, violation_lines=len(viol), caught=(rc == 1 and bool(viol)), wall_s=round(time.time() - t, 1),
                                        obligations=[(a, b, c[:200]) for a, b, c in failing][:6])
        finally:
            sh('git checkout -- .', cwd='/repo')
    dst = os.path.join(V, 'seeded', name)
    os.makedirs(dst, exist_ok=True)
    shutil.copy(patch, os.path.join(dst, 'patch.diff'))
    shutil.copy(os.path.join(seed, 'demo.rs'), os.path.join(dst, 'demo.rs'))
    json.dump(rec, open(os.path.join(dst, 'meta.json'), 'w'), indent=1)
    print(name, 'confirmed=%s' % ok_all, {p: (c['rc'], c['caught']) for p, c in rec['checks'].items()})
    for s in rec['steps']:
        print('   ', s)
    for p, c in rec['checks'].items():
        for o in c['obligations']:
            print('    %s %s' % (p, o))


if __name__ == '__main__':
    main()
