"""Shared driver pieces: paths, obligation records, evidence writer, known findings, exit protocol."""
import json, os, subprocess, sys, time, hashlib

VERIF = os.path.dirname(os.path.dirname(os.path.abspath(__file__)))
REPO = os.environ.get('VERIF_REPO', '/repo')
BUILD = os.environ.get('VERIF_BUILD') or os.path.join(VERIF, '.build')
GEN = os.path.join(BUILD, 'gen')
EVIDENCE = os.path.join(VERIF, 'evidence')
REPLAYS = os.path.join(VERIF, 'replays')
KNOWN_FILE = os.path.join(VERIF, 'known_findings.json')

PASS, FAIL, INCONCLUSIVE = 'pass', 'fail', 'inconclusive'


def env_offline(extra=None):
    e = dict(os.environ)
    e['CARGO_NET_OFFLINE'] = 'true'
    e.pop('RUSTFLAGS', None)
    if extra:
        e.update(extra)
    return e


def ensure_dirs():
    for d in (BUILD, GEN, EVIDENCE, REPLAYS):
        os.makedirs(d, exist_ok=True)


def write_if_changed(path, text):
    """Generated sources are only rewritten when their content changes (keeps cargo fingerprints stable)."""
    try:
        if open(path).read() == text:
            return False
    except OSError:
        pass
    os.makedirs(os.path.dirname(path), exist_ok=True)
    with open(path, 'w') as f:
        f.write(text)
    return True


def sha(path):
    try:
        return hashlib.sha256(open(path, 'rb').read()).hexdigest()[:16]
    except OSError:
        return None


class Obligation:
    """One decided statement: a Kani harness, a set of MIR paths with their solver queries, or an SMT table query."""

    def __init__(self, oid, desc, engine, bounds='', functions=()):
        self.id, self.desc, self.engine, self.bounds = oid, desc, engine, bounds
        self.functions = list(functions)
        self.status = INCONCLUSIVE
        self.detail = ''
        self.queries = 0          # solver queries discharged (unsat/successful)
        self.paths = 0
        self.solver_s = 0.0
        self.wall_s = 0.0
        self.vacuity = None       # True when the vacuity witness was satisfied
        self.samples = []
        self.stubs = []
        self.violations = []      # list of dict(key=..., what=..., replay=path, confirmed=bool)
        self.extra = {}

    def to_json(self):
        d = dict(id=self.id, desc=self.desc, engine=self.engine, bounds=self.bounds, functions=self.functions,
                 status=self.status, detail=self.detail, queries=self.queries, paths=self.paths,
                 solver_s=round(self.solver_s, 3), wall_s=round(self.wall_s, 3), vacuity_witness=self.vacuity,
                 stubs=self.stubs, violations=[dict(v) for v in self.violations])
        d.update(self.extra)
        return d


def load_known():
    try:
        return json.load(open(KNOWN_FILE))
    except OSError:
        return {'findings': []}


def known_open_keys(prop):
    return {f['key']: f for f in load_known()['findings'] if f['property'] == prop and f.get('status') == 'open'}


def finish(prop, tier, seed, obligations, t0, assumptions, trusted, rule, level='model_checking', extra_cov=None):
    """Write evidence, print protocol lines, return exit code.
    0: all obligations pass (known findings printed); 1: unlisted, natively confirmed violation; 2: inconclusive."""
    ensure_dirs()
    known = known_open_keys(prop)
    viol_new, known_hit, inconclusive = [], [], []
    for ob in obligations:
        if ob.status == INCONCLUSIVE:
            inconclusive.append(ob)
        for v in ob.violations:
            if v['key'] in known:
                known_hit.append((ob, v))
            elif v.get('confirmed'):
                viol_new.append((ob, v))
            else:
                inconclusive.append(ob)
    queries = sum(o.queries for o in obligations)
    nontrivial = sum(1 for o in obligations if o.status == PASS and o.vacuity)
    samples = []
    for o in obligations:
        s = {'obligation': o.id, 'engine': o.engine, 'desc': o.desc, 'bounds': o.bounds, 'status': o.status}
        if o.samples:
            s['cases'] = o.samples[:3]
        samples.append(s)
    cov = {
        'evaluations': max(queries, 1) if obligations else 0,
        'distinct_nontrivial': nontrivial,
        'rule': rule,
        'samples': samples,
        'obligations': len(obligations),
        'discharged': sum(1 for o in obligations if o.status == PASS),
        'obligation_detail': [o.to_json() for o in obligations],
        'solver_queries': queries,
        'paths': sum(o.paths for o in obligations),
        'solver_time_s': round(sum(o.solver_s for o in obligations), 3),
        'trusted_base': trusted,
        'known_findings_reported': [v['key'] for _, v in known_hit],
        # model_checking keys: states = symbolic paths / harness verification conditions explored,
        # transitions = solver queries discharged, traces_validated_against_impl = counterexamples replayed natively
        'states': max(1, sum(o.paths for o in obligations) or len(obligations)),
        'transitions': max(1, queries),
        'traces_validated_against_impl': sum(1 for o in obligations for v in o.violations if v.get('confirmed')),
        'inconclusive': [o.id for o in inconclusive],
    }
    if extra_cov:
        cov.update(extra_cov)
    ev = {
        'property_id': prop, 'tier': tier, 'seed': seed, 'level': level, 'coverage': cov,
        'assumptions': assumptions, 'wall_s': round(time.time() - t0, 2), 'violations': len(viol_new),
    }
    with open(os.path.join(EVIDENCE, prop + '.json'), 'w') as f:
        json.dump(ev, f, indent=1, default=str)
    for ob, v in known_hit:
        print('KNOWN-FINDING: property=%s %s [%s] %s' % (prop, v['key'], ob.id, v.get('what', '')))
    for ob in obligations:
        print('  %-34s %-12s %s%s' % (ob.id, ob.status, ob.desc[:70], (' :: ' + ob.detail[:200]) if ob.detail and ob.status != PASS else ''))
    if viol_new:
        for ob, v in viol_new:
            print('VIOLATION property=%s replay=%s' % (prop, v.get('replay', '')))
            print('  obligation=%s key=%s %s' % (ob.id, v['key'], v.get('what', '')))
        return 1
    if inconclusive:
        print('INCONCLUSIVE property=%s obligations=%s' % (prop, ','.join(sorted({o.id for o in inconclusive}))))
        return 2
    print('OK property=%s tier=%s obligations=%d queries=%d wall=%.1fs' % (prop, tier, len(obligations), queries, time.time() - t0))
    return 0


def run(cmd, cwd=None, env=None, timeout=None, log=None):
    t = time.time()
    try:
        p = subprocess.run(cmd, cwd=cwd, env=env, timeout=timeout, stdout=subprocess.PIPE, stderr=subprocess.STDOUT, text=True, errors='replace')
        out, rc = p.stdout, p.returncode
    except subprocess.TimeoutExpired as e:
        out = (e.stdout or b'')
        if isinstance(out, bytes):
            out = out.decode(errors='replace')
        rc = 124
    if log:
        os.makedirs(os.path.dirname(log), exist_ok=True)
        with open(log, 'w') as f:
            f.write(out)
    return rc, out, time.time() - t
