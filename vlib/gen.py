"""Generated inputs, rebuilt from /repo on every run: native tools, database dump, doc tables, Rust table snippets."""
import re, json, os, re
from . import common as C

NATIVE_TARGET = os.path.join(C.BUILD, 'native')


def build_tools():
    """(Re)build dbdump/replayer against /repo's working tree. cargo decides what is stale."""
    lock_src = os.path.join(C.REPO, 'Cargo.lock')
    lock_dst = os.path.join(C.VERIF, 'tools', 'Cargo.lock')
    try:
        if open(lock_src).read() != open(lock_dst).read():
            open(lock_dst, 'w').write(open(lock_src).read())
    except OSError:
        open(lock_dst, 'w').write(open(lock_src).read())
    rc, out, dt = C.run(['cargo', 'build', '--offline', '--release', '--target-dir', NATIVE_TARGET],
                        cwd=os.path.join(C.VERIF, 'tools'), env=C.env_offline({'RUSTFLAGS': '--cfg rbx_dom_verif'}),
                        timeout=1200, log=os.path.join(C.BUILD, 'logs', 'tools_build.log'))
    if rc != 0:
        raise RuntimeError('native tool build failed (see .build/logs/tools_build.log):\n' + out[-2000:])
    return dt


def tool(name):
    return os.path.join(NATIVE_TARGET, 'release', name)


_db = None


def database():
    """The bundled reflection database as decoded by the real crates (dbdump), as a Python dict."""
    global _db
    if _db is None:
        rc, out, _ = C.run([tool('dbdump')], timeout=120)
        if rc != 0:
            raise RuntimeError('dbdump failed: ' + out[-500:])
        _db = json.loads(out)
    return _db


def doc_binary_type_ids():
    """[(heading name, id)] from the 'Data Types' section of docs/binary.md."""
    text = open(os.path.join(C.REPO, 'docs', 'binary.md')).read()
    sec = text.split('\n## Data Types', 1)[1].split('\n## ', 1)[0]
    return [(m.group(1).strip(), int(m.group(2), 16)) for m in re.finditer(r'^### (.+?)\n\*\*Type ID `0x([0-9a-fA-F]+)`\*\*', sec, re.M)]


def doc_attribute_type_ids():
    text = open(os.path.join(C.REPO, 'docs', 'attributes.md')).read()
    return [(m.group(1).strip(), int(m.group(2), 16)) for m in re.finditer(r'^#+ (.+?)\n\*\*Type ID `0x([0-9a-fA-F]+)`\*\*', text, re.M)]


def binary_type_enum():
    """{variant: id} parsed from rbx_binary/src/types.rs `pub enum Type`."""
    src = open(os.path.join(C.REPO, 'rbx_binary', 'src', 'types.rs')).read()
    body = re.search(r'pub enum Type \{(.*?)\n\}', src, re.S).group(1)
    return {m.group(1): int(m.group(2), 16) for m in re.finditer(r'(\w+)\s*=\s*0x([0-9a-fA-F]+)', body)}


DOC_TO_VARIANT = {'Referent': 'Ref', 'OptionalCoordinateFrame': 'OptionalCFrame'}


def write_kani_tables():
    """Rust snippets included by the Kani harnesses."""
    rows = doc_binary_type_ids()
    enum = binary_type_enum()
    documented = sorted({i for _, i in rows})
    unimpl = sorted(i for n, i in rows if DOC_TO_VARIANT.get(n, n) not in enum)
    txt = '// generated from docs/binary.md by vlib/gen.py\n'
    txt += 'const DOC_TYPE_IDS: &[u8] = &[%s];\n' % ', '.join('0x%02x' % i for i in documented)
    txt += 'const DOC_UNIMPLEMENTED_IDS: &[u8] = &[%s];\n' % ', '.join('0x%02x' % i for i in unimpl)
    named = [(DOC_TO_VARIANT.get(n, n), i) for n, i in rows if DOC_TO_VARIANT.get(n, n) in enum]
    txt += 'const DOC_NAMED_IDS: &[(u8, crate::types::Type)] = &[%s];\n' % ', '.join('(0x%02x, crate::types::Type::%s)' % (i, n) for n, i in named)
    C.write_if_changed(os.path.join(C.GEN, 'k7_doc_table.rs'), txt)
    db = database()
    font = sorted(set(db['Enums']['Font']['items'].values()))
    known = C.known_open_keys('C15')
    excluded = sorted(int(k.split(':')[1]) for k in known if k.startswith('font_item_unmigratable:'))
    txt = '// generated from the reflection database (dbdump) by vlib/gen.py\n'
    txt += 'const FONT_ENUM_ITEMS: &[u32] = &[%s];\n' % ', '.join(map(str, font))
    txt += 'const FONT_KNOWN_UNMIGRATABLE: &[u32] = &[%s];\n' % ', '.join(map(str, excluded))
    C.write_if_changed(os.path.join(C.GEN, 'k12_font_items.rs'), txt)
    bricks = brick_color_rows()
    txt = '// generated from the make_brick_color! invocation in rbx_types/src/brick_color.rs by vlib/gen.py\n'
    txt += 'const BRICK_VARIANTS: [crate::BrickColor; %d] = [%s];\n' % (len(bricks), ', '.join('crate::BrickColor::' + b[0] for b in bricks))
    first = {}
    for b in bricks:
        first.setdefault(b[1], b[0])
    txt += '// (name, first variant carrying that name, own colour) per variant, in declaration order\n'
    txt += 'const BRICK_ROWS: [(&str, crate::BrickColor, (u8, u8, u8)); %d] = [%s];\n' % (
        len(bricks), ', '.join('("%s", crate::BrickColor::%s, (%d, %d, %d))' % (b[1], first[b[1]], b[3][0], b[3][1], b[3][2]) for b in bricks))
    txt += 'const BRICK_NAME_MAX: usize = %d;\n' % max(len(b[1]) for b in bricks)
    C.write_if_changed(os.path.join(C.GEN, 'k13_brick_variants.rs'), txt)
    return {'doc_type_rows': rows, 'font_items': font, 'font_excluded': excluded, 'brick_variants': len(bricks)}


def brick_color_rows():
    """[(variant, name, number)] of the make_brick_color! invocation (the list of enum variants; from_number / from_name are
    macro-generated matches over it, so a guard added in front of the match is not reflected here)."""
    src = open(os.path.join(C.REPO, 'rbx_types/src/brick_color.rs')).read()
    body = src[src.index('make_brick_color!({'):]
    return [(m.group(1), m.group(2), int(m.group(3)), (int(m.group(4)), int(m.group(5)), int(m.group(6))))
            for m in re.finditer(r'\[\s*(\w+)\s*,\s*"([^"]*)"\s*,\s*(\d+)\s*,\s*\(\s*(\d+)\s*,\s*(\d+)\s*,\s*(\d+)\s*\)', body)]
