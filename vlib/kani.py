"""Engine K: run Kani harnesses (kept in /verif/kani/<crate>.rs, included into the crate by the guarded hook)
against /repo's working tree; one cbmc process per harness, several in parallel; native replay of
counterexamples through `cargo kani playback`."""
import os, re, time, json, shutil, subprocess
from concurrent.futures import ThreadPoolExecutor
from . import common as C

KANI_DIR = os.path.join(C.VERIF, 'kani')
MEM_KB = int(os.environ.get('VERIF_KANI_MEM_KB', str(16 * 1024 * 1024)))


def kani_env():
    return C.env_offline({
        'RUSTFLAGS': '--cfg rbx_dom_verif',
        'RBX_DOM_VERIF_DIR': KANI_DIR,
        'RBX_DOM_VERIF_GEN': C.GEN,
    })


def target_dir(crate):
    return os.path.join(C.BUILD, 'kani', crate)


class Harness:
    def __init__(self, crate, name, oid, desc, bounds, timeout=600, expect_fail=False, functions=(), finding_key=None,
                 finding_what=None, stubs=()):
        self.crate, self.name, self.oid, self.desc, self.bounds = crate, name, oid, desc, bounds
        self.timeout, self.expect_fail = timeout, expect_fail
        self.functions = list(functions)
        self.finding_key = finding_key      # key used when this harness fails (role of the failure)
        self.finding_what = finding_what
        self.stubs = list(stubs)


def _cmd(h, extra=()):
    return ['cargo', 'kani', '--target-dir', target_dir(h.crate), '-Z', 'stubbing',
            '--harness', 'verif_harness::' + h.name, '--exact'] + list(extra)


def prebuild(crates):
    """Compile each crate's goto binaries once (serially per crate, crates in parallel) so harness runs only pay for cbmc."""
    def one(crate):
        t = time.time()
        rc, out, dt = C.run(['bash', '-c', 'ulimit -v %d; exec cargo kani --target-dir %s -Z stubbing --only-codegen' % (MEM_KB * 2, target_dir(crate))],
                            cwd=os.path.join(C.REPO, crate), env=kani_env(), timeout=1500,
                            log=os.path.join(C.BUILD, 'logs', 'kani_build_%s.log' % crate))
        return crate, rc, out, dt
    res = {}
    with ThreadPoolExecutor(max_workers=max(1, len(crates))) as ex:
        for crate, rc, out, dt in ex.map(one, crates):
            res[crate] = (rc, out, dt)
    return res


def parse_result(out):
    """-> (verdict, detail).  verdict in SUCCESSFUL / FAILED / ERROR"""
    m = re.findall(r'^VERIFICATION:- (SUCCESSFUL|FAILED)', out, re.M)
    failed_checks = re.findall(r'^Failed Checks: (.*)$', out, re.M)
    unwind_fail = any('unwinding assertion' in f for f in failed_checks)
    if 'Status: ERROR' in out or 'CBMC failed' in out or 'out of memory' in out.lower() or 'std::bad_alloc' in out:
        return 'ERROR', 'cbmc error / out of memory'
    if not m:
        if 'internal compiler error' in out or 'Kani unexpectedly panicked' in out:
            return 'ERROR', 'kani ICE'
        return 'ERROR', 'no verdict'
    if m[-1] == 'SUCCESSFUL':
        return 'SUCCESSFUL', ''
    if unwind_fail:
        return 'ERROR', 'unwinding assertion failed (bound too small): ' + '; '.join(failed_checks)[:300]
    return 'FAILED', '; '.join(failed_checks)[:600]


def cover_status(out, harness=None):
    """(satisfied, total) of the harness's own kani::cover! properties (covers inside library code are not counted)"""
    sat = tot = 0
    for m in re.finditer(r'^Check \d+: (\S+)\.cover\.\d+\n\s+- Status: (\w+)', out, re.M):
        if harness is not None and not m.group(1).endswith(harness):
            continue
        tot += 1
        if m.group(2) == 'SATISFIED':
            sat += 1
    return sat, tot


def run_one(h, tier):
    log = os.path.join(C.BUILD, 'logs', 'kani_%s_%s.log' % (h.crate, h.name))
    cmd = 'ulimit -v %d; exec %s' % (MEM_KB, ' '.join(_cmd(h)))
    rc, out, dt = C.run(['bash', '-c', cmd], cwd=os.path.join(C.REPO, h.crate), env=kani_env(), timeout=h.timeout, log=log)
    if rc == 124:
        return h, 'ERROR', 'timeout after %ds' % h.timeout, out, dt
    verdict, detail = parse_result(out)
    return h, verdict, detail, out, dt


def stats(out):
    d = {}
    m = re.search(r'Runtime decision procedure: ([\d.]+)s', out)
    if m:
        d['solver_s'] = float(m.group(1))
    m = re.search(r'Verification Time: ([\d.]+)s', out)
    if m:
        d['verification_s'] = float(m.group(1))
    m = re.search(r'(\d+) variables, (\d+) clauses', out)
    if m:
        d['sat_variables'], d['sat_clauses'] = int(m.group(1)), int(m.group(2))
    m = re.search(r'\*\* (\d+) of (\d+) failed', out)
    if m:
        d['checks_failed'], d['checks_total'] = int(m.group(1)), int(m.group(2))
    return d


def playback(h):
    """Native replay of a failing harness: ask Kani for the concrete values (print mode), store the generated unit test,
    compile it against the real crate and run it natively (dev profile).  Returns (confirmed, replay_path, detail)."""
    os.makedirs(os.path.join(C.REPLAYS, h.oid.split('.')[0]), exist_ok=True)
    log = os.path.join(C.BUILD, 'logs', 'kani_%s_%s.playback.log' % (h.crate, h.name))
    cmd = 'ulimit -v %d; exec %s' % (MEM_KB, ' '.join(_cmd(h, ['-Z', 'concrete-playback', '--concrete-playback=print'])))
    rc, out, dt = C.run(['bash', '-c', cmd], cwd=os.path.join(C.REPO, h.crate), env=kani_env(), timeout=h.timeout + 300, log=log)
    m = re.search(r'```\n(.*?)```', out, re.S)
    if not m:
        return False, None, 'no concrete playback test produced'
    test_src = m.group(1)
    tname = re.search(r'fn (kani_concrete_playback_\w+)', test_src)
    if not tname:
        return False, None, 'cannot parse playback test'
    tname = tname.group(1)
    replay_path = os.path.join(C.REPLAYS, '%s_%s.rs' % (h.crate, h.name))
    with open(replay_path, 'w') as f:
        f.write('// concrete counterexample for harness %s (crate %s), produced by Kani, replayed natively\n' % (h.name, h.crate))
        f.write('// re-run: ./check --replay %s\n' % replay_path)
        f.write(test_src)
    ok, detail = run_playback_file(h.crate, h.name, replay_path)
    return ok, replay_path, detail


def run_playback_file(crate, harness, replay_path):
    """Compile the stored playback test into the crate (through the generated playback include) and run it natively."""
    src = open(replay_path).read()
    m = re.search(r'fn (kani_concrete_playback_\w+)', src)
    if not m:
        return False, 'no playback test in file'
    tname = m.group(1)
    pb = os.path.join(C.GEN, 'playback_%s.rs' % crate)
    body = '\n'.join(l for l in src.split('\n') if not l.startswith('//'))
    with open(pb, 'w') as f:
        f.write(body)
    env = kani_env()
    env['CARGO_TARGET_DIR'] = os.path.join(C.BUILD, 'kani_playback', crate)
    try:
        rc, out, dt = C.run(['cargo', 'kani', 'playback', '-Z', 'concrete-playback', '--', tname],
                            cwd=os.path.join(C.REPO, crate), env=env, timeout=1500,
                            log=os.path.join(C.BUILD, 'logs', 'kani_%s_%s.replay.log' % (crate, harness)))
    finally:
        with open(pb, 'w') as f:
            f.write('')
    failed = re.search(r'test result: FAILED|panicked at', out) is not None
    ran = re.search(r'running 1 test', out) is not None
    if ran and failed:
        pm = re.search(r'panicked at ([^\n]*)\n([^\n]*)', out)
        return True, ('native replay failed as predicted: ' + (pm.group(0).replace('\n', ' ') if pm else ''))[:400]
    if ran:
        return False, 'native replay passed (counterexample does not reproduce)'
    return False, 'native replay did not run: ' + out[-300:]


def ensure_playback_files(crates):
    for c in crates:
        p = os.path.join(C.GEN, 'playback_%s.rs' % c)
        if not os.path.exists(p):
            C.write_if_changed(p, '')


def run_harnesses(harnesses, tier, jobs=6):
    """Returns list of Obligation."""
    crates = sorted({h.crate for h in harnesses})
    ensure_playback_files(['rbx_types', 'rbx_binary', 'rbx_reflection'])
    obs = []
    build = prebuild(crates)
    bad = {c for c, (rc, out, dt) in build.items() if rc != 0}
    results = []
    todo = [h for h in harnesses if h.crate not in bad]
    with ThreadPoolExecutor(max_workers=jobs) as ex:
        for r in ex.map(lambda h: run_one(h, tier), todo):
            results.append(r)
    for h in harnesses:
        if h.crate in bad:
            ob = C.Obligation(h.oid, h.desc, 'K', h.bounds, h.functions)
            ob.status, ob.detail = C.INCONCLUSIVE, 'kani build failed for ' + h.crate + ': ' + build[h.crate][1][-300:]
            obs.append(ob)
    for h, verdict, detail, out, dt in results:
        ob = C.Obligation(h.oid, h.desc, 'K', h.bounds, h.functions)
        ob.wall_s = dt
        st = stats(out)
        ob.solver_s = st.get('solver_s', 0.0)
        ob.extra['kani'] = dict(st, harness=h.name, crate=h.crate, verdict=verdict)
        ob.stubs = h.stubs
        sat, tot = cover_status(out, h.name)
        ob.samples = [{'harness': h.name, 'crate': h.crate, 'bounds': h.bounds, 'verdict': verdict, 'cover_satisfied': '%d/%d' % (sat, tot)}]
        if h.expect_fail:
            # vacuity twin: must come back FAILED
            if verdict == 'FAILED':
                ob.status, ob.vacuity, ob.queries = C.PASS, True, 1
            else:
                ob.status, ob.detail = C.INCONCLUSIVE, 'vacuity twin did not fail: %s %s' % (verdict, detail)
        elif verdict == 'SUCCESSFUL':
            ob.queries = st.get('checks_total', 1) or 1
            if tot and sat < tot:
                ob.status, ob.detail = C.INCONCLUSIVE, 'vacuity witness unsatisfied (%d/%d cover properties)' % (sat, tot)
            else:
                ob.status, ob.vacuity = C.PASS, bool(tot)
        elif verdict == 'FAILED':
            ob.status = C.FAIL
            ob.detail = detail
            ok, path, pdetail = playback(h)
            key = (h.finding_key or ('kani:%s' % h.name))
            ob.violations.append(dict(key=key, what=(h.finding_what or h.desc) + ' :: ' + detail[:200] + ' :: ' + pdetail, replay=path, confirmed=ok))
        else:
            ob.status, ob.detail = C.INCONCLUSIVE, detail
        obs.append(ob)
    return obs
