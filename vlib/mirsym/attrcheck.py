"""C14 / C13: attribute blobs.  Real MIR of Attributes::to_writer / from_reader (and everything they call) on symbolic
maps / symbolic byte strings; spec encoder transcribed from docs/attributes.md (type ids parsed from the doc at run time)."""
import re, os, time, itertools
import z3
from .values import *
from .interp import Exec, Stats
from .rbx_models import RbxModels, World
from .models import deref
from . import iomodels
from .. import common as C


def doc_type_ids():
    text = open(os.path.join(C.REPO, 'docs', 'attributes.md')).read()
    return {m.group(1).strip(): int(m.group(2), 16) for m in re.finditer(r'^### (.+?)\n\*\*Type ID `0x([0-9a-fA-F]+)`\*\*', text, re.M)}


def doc_rotation_ids():
    text = open(os.path.join(C.REPO, 'docs', 'attributes.md')).read()
    sec = text.split('### CFrame', 1)[1].split('### EnumItem', 1)[0]
    return sorted({int(x, 16) for x in re.findall(r'\| `([0-9a-fA-F]{2})` \|', sec)})


KINDS = ['BinaryString', 'String', 'Bool', 'Int32', 'Float32', 'Float64', 'UDim', 'UDim2', 'BrickColor', 'Color3', 'Vector2', 'Vector3',
         'CFrame', 'EnumItem', 'NumberSequence', 'ColorSequence', 'NumberRange', 'Rect', 'Font']
DOC_NAME = {'BinaryString': 'String', 'String': 'String'}


def le_bytes(t, nbytes):
    return [z3.simplify(z3.Extract(8 * i + 7, 8 * i, t)) for i in range(nbytes)]


class Spec:
    """Encoder written from docs/attributes.md (independent of the repository code)."""

    def __init__(self):
        self.ids = doc_type_ids()

    def u32(self, n):
        return le_bytes(z3.BitVecVal(n, 32), 4)

    def string(self, bs):
        return self.u32(len(bs)) + [b.t for b in bs]

    def f32(self, x):
        return le_bytes(x.t, 4)

    def value(self, kind, v):
        if kind in ('BinaryString', 'String'):
            return self.string(v)
        if kind == 'Bool':
            return [z3.If(v.t, z3.BitVecVal(1, 8), z3.BitVecVal(0, 8))]
        if kind in ('Int32', 'Float32'):
            return le_bytes(v.t, 4)
        if kind == 'Float64':
            return le_bytes(v.t, 8)
        if kind == 'UDim':
            return self.f32(v[0]) + le_bytes(v[1].t, 4)
        if kind == 'UDim2':
            return self.value('UDim', v[0]) + self.value('UDim', v[1])
        if kind == 'BrickColor':
            return le_bytes(v.t, 4)
        if kind in ('Color3', 'Vector3'):
            return self.f32(v[0]) + self.f32(v[1]) + self.f32(v[2])
        if kind in ('Vector2', 'NumberRange'):
            return self.f32(v[0]) + self.f32(v[1])
        if kind == 'Rect':
            return self.value('Vector2', v[0]) + self.value('Vector2', v[1])
        if kind == 'CFrame':
            pos, rot = v
            out = self.value('Vector3', pos)
            if rot[0] == 'id':
                return out + [z3.BitVecVal(rot[1], 8)]
            out.append(z3.BitVecVal(0, 8))
            for x in rot[1]:
                out += self.f32(x)
            return out
        if kind == 'EnumItem':
            return self.string(v[0]) + le_bytes(v[1].t, 4)
        if kind == 'NumberSequence':
            out = self.u32(len(v))
            for t_, val, env in v:
                out += self.f32(env) + self.f32(t_) + self.f32(val)
            return out
        if kind == 'ColorSequence':
            out = self.u32(len(v))
            for t_, col in v:
                out += le_bytes(z3.BitVecVal(0, 32), 4) + self.f32(t_) + self.value('Color3', col)
            return out
        if kind == 'Font':
            weight, style, family, cached = v
            return le_bytes(weight.t, 2) + [style.t] + self.string(family) + self.string(cached or [])
        raise Unsupported('spec encoder: ' + kind)

    def blob(self, entries):
        """entries sorted by name as the writer iterates its BTreeMap"""
        if not entries:
            return []
        out = self.u32(len(entries))
        for name, kind, v in entries:
            out += self.string(name)
            out.append(z3.BitVecVal(self.ids[DOC_NAME.get(kind, kind)], 8))
            out += self.value(kind, v)
        return out


class AttrHarness:
    def __init__(self, prog):
        self.prog = prog
        self.F_WRITE = prog.resolve('Attributes::to_writer')
        self.F_READ = prog.resolve('Attributes::from_reader')
        if self.F_WRITE is None or self.F_READ is None:
            raise Unsupported('Attributes::to_writer / from_reader not found in MIR')
        self.spec = Spec()
        self.rot_ids = doc_rotation_ids()

    def S(self, name, **kw):
        """build a repository struct value with fields given by name (declaration order from the source)"""
        fields = self.prog.structs.get(name)
        if fields is None or set(fields) != set(kw):
            raise Unsupported('struct layout of %s is %s, harness expects %s' % (name, fields, sorted(kw)))
        return Struct([kw[f] for f in fields], name)

    def f32(self, n):
        return sym_int(n, 'f32')

    def bytes(self, prefix, n):
        return [sym_int('%s_b%d' % (prefix, i), 'u8') for i in range(n)]

    def make(self, ex, kind, tag, size=1):
        """-> (Variant value for the interpreter, logical value for the spec encoder, expected decoded kind/value)"""
        V = lambda variant, payload: Enum('Variant', variant, [payload])
        f = lambda s: self.f32('%s_%s' % (tag, s))
        vec3 = lambda p: (f(p + 'x'), f(p + 'y'), f(p + 'z'))
        S = self.S
        if kind == 'BinaryString':
            bs = self.bytes(tag, size)
            return V('BinaryString', S('BinaryString', buffer=VecM(list(bs)))), bs
        if kind == 'String':
            bs = self.bytes(tag, size)
            ex.assume(iomodels.utf8_valid(bs))
            return V('String', StrV(list(bs), None)), bs
        if kind == 'Bool':
            b = sym_bool(tag + '_bool')
            return V('Bool', b), b
        if kind in ('Int32', 'Float32', 'Float64'):
            x = sym_int(tag + '_v', {'Int32': 'i32', 'Float32': 'f32', 'Float64': 'f64'}[kind])
            return V(kind, x), x
        if kind == 'UDim':
            sc, off = f('scale'), sym_int(tag + '_offset', 'i32')
            return V('UDim', S('UDim', scale=sc, offset=off)), (sc, off)
        if kind == 'UDim2':
            a = (f('xs'), sym_int(tag + '_xo', 'i32'))
            b = (f('ys'), sym_int(tag + '_yo', 'i32'))
            return V('UDim2', S('UDim2', x=S('UDim', scale=a[0], offset=a[1]), y=S('UDim', scale=b[0], offset=b[1]))), (a, b)
        if kind == 'BrickColor':
            names = sorted(self.prog.enums['BrickColor'])
            k = ex.nondet(len(names), 'BrickColor variant')
            return V('BrickColor', Enum('BrickColor', names[k])), mk_int(self.prog.enums['BrickColor'][names[k]], 'u32')
        if kind == 'Color3':
            c = (f('r'), f('g'), f('b'))
            return V('Color3', S('Color3', r=c[0], g=c[1], b=c[2])), c
        if kind == 'Vector2':
            c = (f('x'), f('y'))
            return V('Vector2', S('Vector2', x=c[0], y=c[1])), c
        if kind == 'Vector3':
            c = vec3('')
            return V('Vector3', S('Vector3', x=c[0], y=c[1], z=c[2])), c
        if kind == 'NumberRange':
            c = (f('min'), f('max'))
            return V('NumberRange', S('NumberRange', min=c[0], max=c[1])), c
        if kind == 'Rect':
            a, b = (f('minx'), f('miny')), (f('maxx'), f('maxy'))
            return V('Rect', S('Rect', min=S('Vector2', x=a[0], y=a[1]), max=S('Vector2', x=b[0], y=b[1]))), (a, b)
        if kind == 'EnumItem':
            bs = self.bytes(tag + '_ty', size)
            ex.assume(iomodels.utf8_valid(bs))
            val = sym_int(tag + '_val', 'u32')
            return V('EnumItem', S('EnumItem', ty=StrV(list(bs), None), value=val)), (bs, val)
        if kind == 'NumberSequence':
            kps = [(f('t%d' % i), f('v%d' % i), f('e%d' % i)) for i in range(size)]
            items = [S('NumberSequenceKeypoint', time=t, value=v, envelope=e) for t, v, e in kps]
            return V('NumberSequence', S('NumberSequence', keypoints=VecM(items))), kps
        if kind == 'ColorSequence':
            kps = [(f('t%d' % i), (f('r%d' % i), f('g%d' % i), f('b%d' % i))) for i in range(size)]
            items = [S('ColorSequenceKeypoint', time=t, color=S('Color3', r=c[0], g=c[1], b=c[2])) for t, c in kps]
            return V('ColorSequence', S('ColorSequence', keypoints=VecM(items))), kps
        if kind == 'Font':
            wn = ['Thin', 'ExtraLight', 'Light', 'Regular', 'Medium', 'SemiBold', 'Bold', 'ExtraBold', 'Heavy']
            wi = ex.nondet(len(wn), 'FontWeight')
            si = ex.nondet(2, 'FontStyle')
            fam = self.bytes(tag + '_fam', size)
            ex.assume(iomodels.utf8_valid(fam))
            has_cached = ex.nondet(2, 'cached face') == 1
            cached = self.bytes(tag + '_face', 1) if has_cached else None
            if cached:
                ex.assume(iomodels.utf8_valid(cached))
            val = S('Font', family=StrV(list(fam), None), weight=Enum('FontWeight', wn[wi]), style=Enum('FontStyle', ['Normal', 'Italic'][si]),
                    cached_face_id=Some(StrV(list(cached), None)) if cached else NoneV())
            return V('Font', val), (mk_int((wi + 1) * 100, 'u16'), mk_int(si, 'u8'), fam, cached)
        if kind == 'CFrame':
            pos = vec3('p')
            mode = ex.nondet(2, 'CFrame rotation kind')
            if mode == 0:
                # one of the documented axis-aligned rotations, obtained from the real from_basic_rotation_id
                rid = self.rot_ids[ex.nondet(len(self.rot_ids), 'rotation id')]
                fn = self.prog.resolve('Matrix3::from_basic_rotation_id')
                m = ex.force(ex.call_fn(fn, [mk_int(rid, 'u8')]))
                if m.variant != 'Ok':
                    raise Violation('C14.rotid: documented rotation id 0x%02x is rejected by from_basic_rotation_id' % rid)
                mat = m.f[0]
                logical = (pos, ('id', rid))
            else:
                # general matrix: entries far from 0 and +-1 (|m| >= 2) so that it is not within epsilon of a basic rotation
                ent = [f('m%d' % i) for i in range(9)]
                for e in ent:
                    fp = z3.fpBVToFP(e.t, z3.Float32())
                    ex.assume(z3.And(z3.Not(z3.fpIsNaN(fp)), z3.fpGEQ(z3.fpAbs(fp), z3.FPVal(2.0, z3.Float32()))))
                rows = [S('Vector3', x=ent[3 * i], y=ent[3 * i + 1], z=ent[3 * i + 2]) for i in range(3)]
                mat = S('Matrix3', x=rows[0], y=rows[1], z=rows[2])
                logical = (pos, ('matrix', ent))
            val = S('CFrame', position=S('Vector3', x=pos[0], y=pos[1], z=pos[2]), orientation=mat)
            return V('CFrame', val), logical
        raise Unsupported('kind ' + kind)


def bits_eq(a, b):
    """z3 Bool: bit-identical values (floats by bit pattern)"""
    a, b = deref(a), deref(b)
    if isinstance(a, Sc) and isinstance(b, Sc):
        if a.ty == 'bool' or b.ty == 'bool':
            return a.t == b.t
        return a.t == b.t if a.t.size() == b.t.size() else z3.BoolVal(False)
    if isinstance(a, StrV) and isinstance(b, StrV):
        if a.data is None or b.data is None or len(a.data) != len(b.data):
            return z3.BoolVal(False)
        return z3.And([x.t == y.t for x, y in zip(a.data, b.data)]) if a.data else z3.BoolVal(True)
    la = a.items if isinstance(a, (VecM, ArrayV)) else None
    lb = b.items if isinstance(b, (VecM, ArrayV)) else None
    if la is not None and lb is not None:
        if len(la) != len(lb):
            return z3.BoolVal(False)
        return z3.And([bits_eq(x, y) for x, y in zip(la, lb)]) if la else z3.BoolVal(True)
    if isinstance(a, MapM) and isinstance(b, MapM):
        if len(a.entries) != len(b.entries):
            return z3.BoolVal(False)
        return z3.And([z3.And(bits_eq(x[0], y[0]), bits_eq(x[1].v, y[1].v)) for x, y in zip(a.entries, b.entries)]) if a.entries else z3.BoolVal(True)
    if isinstance(a, Struct) and isinstance(b, Struct):
        if len(a.f) != len(b.f):
            return z3.BoolVal(False)
        return z3.And([bits_eq(x, y) for x, y in zip(a.f, b.f)]) if a.f else z3.BoolVal(True)
    if isinstance(a, Enum) and isinstance(b, Enum):
        if a.variant != b.variant or len(a.f) != len(b.f):
            return z3.BoolVal(False)
        return z3.And([bits_eq(x, y) for x, y in zip(a.f, b.f)]) if a.f else z3.BoolVal(True)
    return z3.BoolVal(False)


def expected_after_roundtrip(H, kind, val):
    """the value the statement allows after decode(encode(.)): String -> BinaryString; everything else identical"""
    if kind == 'String':
        s = val.f[0]
        return Enum('Variant', 'BinaryString', [H.S('BinaryString', buffer=VecM(list(s.data)))])
    return val


def make_models():
    M = RbxModels()
    iomodels.register(M)
    return M


def run_case(H, ex, case):
    """case: dict(kind=..., kinds=[..] (1-2 entries), sizes, what='rt'|'empty'|'fuzz'|'sink'|'choppy')"""
    what = case['what']
    P = H.prog
    if what in ('rt', 'sink'):
        entries = []
        for i, (kind, nlen, size) in enumerate(case['entries']):
            name = [sym_int('name%d_b%d' % (i, j), 'u8') for j in range(nlen)]
            ex.assume(iomodels.utf8_valid(name))
            val, logical = H.make(ex, kind, 'e%d' % i, size)
            entries.append((name, kind, val, logical))
            if kind == 'CFrame':
                o = val.f[0].f[H.prog.field('CFrame', 'orientation')]
                ex.attr_matrices[id(logical)] = [c for row in o.f for c in row.f]
        ex.attr_entries = entries
        # distinct names (a map)
        for (a, *_), (b, *_) in itertools.combinations(entries, 2):
            if len(a) == len(b):
                ex.assume(z3.Or([x.t != y.t for x, y in zip(a, b)]) if a else z3.BoolVal(False))
        mp = MapM([[StrV(list(n), None), Cell(v)] for n, k, v, l in entries], ordered=True, kind='BTreeMap')
        attrs = Struct([mp], 'Attributes')
        if what == 'sink':
            sink = iomodels.SinkV(limit=case['fail_at'])
            res = ex.force(ex.call_fn(H.F_WRITE, [Ptr(Cell(attrs)), Ptr(Cell(sink))]))
            if sink.failed and res.variant != 'Err':
                raise Violation('C13.sink: to_writer reports success although the sink failed after %d bytes' % case['fail_at'])
            if not sink.failed and res.variant != 'Ok':
                raise Violation('C13.sink: to_writer fails although the sink accepted everything')
            return 'ok'
        out = VecM([])
        res = ex.force(ex.call_fn(H.F_WRITE, [Ptr(Cell(attrs)), Ptr(Cell(out))]))
        if res.variant != 'Ok':
            raise Violation('C14.write: to_writer fails on a map of supported values (%s)' % [e[1] for e in entries])
        # layout = spec encoder (entries in name order: decided by the solver on the symbolic names)
        order = ex.models.sorted_order(ex, [StrV(list(n), None) for n, *_ in entries])
        spec = H.spec.blob([(entries[i][0], entries[i][1], entries[i][3]) for i in order])
        got = [x.t for x in out.items]
        if len(got) != len(spec):
            raise Violation('C14.layout: %d bytes written, the documented layout has %d (%s)' % (len(got), len(spec), [e[1] for e in entries]))
        diff = z3.Or([g != s for g, s in zip(got, spec)]) if got else z3.BoolVal(False)
        if ex.sat(diff):
            ex.assume(diff)
            bad = next(i for i, (g, s) in enumerate(zip(got, spec)) if ex.sat(g != s))
            raise Violation('C14.layout: byte %d of the blob differs from the documented layout (%s)' % (bad, [e[1] for e in entries]))
        # read back
        cur = iomodels.CursorV(list(out.items), mode=case.get('reader', 'oneshot'))
        res = ex.force(ex.call_fn(H.F_READ, [Ptr(Cell(cur))]))
        if res.variant != 'Ok':
            raise Violation('C14.read: from_reader rejects the blob to_writer produced (%s)' % [e[1] for e in entries])
        back = res.f[0].f[0]
        if len(back.entries) != len(entries):
            raise Violation('C14.rt: %d entries written, %d read back' % (len(entries), len(back.entries)))
        for name, kind, val, logical in entries:
            hit = None
            for k, c in back.entries:
                if k.data is not None and len(k.data) == len(name) and not ex.sat(z3.Or([x.t != y.t for x, y in zip(k.data, name)]) if name else z3.BoolVal(False)):
                    hit = c.v
            if hit is None:
                raise Violation('C14.rt: attribute name lost or changed (%s)' % kind)
            want = expected_after_roundtrip(H, kind, val)
            if kind == 'ColorSequence' or kind == 'CFrame' or kind == 'Font':
                pass
            e = bits_eq(hit, want)
            if ex.sat(z3.Not(e)):
                raise Violation('C14.rt: %s value changed by encode/decode' % kind)
        return 'ok'
    if what == 'empty':
        attrs = Struct([MapM([], ordered=True, kind='BTreeMap')], 'Attributes')
        out = VecM([])
        res = ex.force(ex.call_fn(H.F_WRITE, [Ptr(Cell(attrs)), Ptr(Cell(out))]))
        if res.variant != 'Ok' or out.items:
            raise Violation('C14.empty: empty map does not encode to zero bytes')
        res = ex.force(ex.call_fn(H.F_READ, [Ptr(Cell(iomodels.CursorV([])))]))
        if res.variant != 'Ok' or res.f[0].f[0].entries:
            raise Violation('C14.empty: zero bytes do not decode to an empty map')
        return 'ok'
    if what == 'fuzz':
        n = case['len']
        data = [sym_int('in%d' % i, 'u8') for i in range(n)]
        for i, b in enumerate(case.get('prefix', [])):
            ex.assume(data[i].t == b)
        cur = iomodels.CursorV(data, mode=case.get('reader', 'oneshot'))
        ex.alloc_limit = n + 1
        try:
            res = ex.force(ex.call_fn(H.F_READ, [Ptr(Cell(cur))]))
        except PanicPath as p:
            raise Violation('C13.panic: from_reader panics on %d input bytes: %s at %s' % (n, p.msg, p.site))
        # allocation requests must be bounded by the input size
        for callee, term, site in ex.alloc_requests:
            w = term.t.size()
            if ex.sat(z3.UGT(term.t, z3.BitVecVal(max(1 << 16, 16 * n), w))):
                ex.assume(z3.UGT(term.t, z3.BitVecVal(max(1 << 16, 16 * n), w)))
                if w > 30 and ex.sat(z3.UGE(term.t, z3.BitVecVal(1 << 30, w))):
                    ex.assume(z3.UGE(term.t, z3.BitVecVal(1 << 30, w)))        # a witness that shows natively (address-space limit)
                raise Violation('C13.alloc[attr_reader_alloc]: %s is asked for a buffer whose size comes straight from the input (can exceed 64 KiB and 16x the %d input bytes) at %s' % (callee.split('::<')[0], n, site))
        return 'ok' if res.variant == 'Ok' else 'err'
    if what == 'partition':
        # the decoding result must not depend on how the reader delivers the bytes
        n = case['len']
        data = [sym_int('in%d' % i, 'u8') for i in range(n)]
        for i, b in enumerate(case.get('prefix', [])):
            ex.assume(data[i].t == b)
        ex.alloc_limit = n + 1
        r1 = ex.force(ex.call_fn(H.F_READ, [Ptr(Cell(iomodels.CursorV(data, mode='oneshot')))]))
        cur2 = iomodels.CursorV(data, mode='choppy', max_reads=case.get('max_reads', 10))
        ex.partition_log = cur2.log
        r2 = ex.force(ex.call_fn(H.F_READ, [Ptr(Cell(cur2))]))
        if r1.variant != r2.variant:
            raise Violation('C13.partition: one-shot reader gives %s, a reader delivering the same bytes in pieces / with interruptions gives %s' % (r1.variant, r2.variant))
        if r1.variant == 'Ok' and ex.sat(z3.Not(bits_eq(r1.f[0], r2.f[0]))):
            raise Violation('C13.partition: decoded values depend on the read partition')
        return 'ok' if r1.variant == 'Ok' else 'err'
    raise Unsupported('case ' + what)


def explore(prog, case, stats=None, max_paths=50000, budget_s=600, max_viol=2):
    H = AttrHarness(prog)
    stats = stats or Stats()
    M = make_models()
    res = dict(paths=0, ok=0, err=0, infeasible=0, violations=[], unsupported=None)
    work = [[]]
    t0 = time.time()
    seen = set()
    while work:
        dec = work.pop()
        ex = Exec(prog, M, dec, stats)
        ex.world = World()
        ex.range_limit = case.get('range_limit', 64)
        if ex.range_limit > 64:
            import sys as _sys
            _sys.setrecursionlimit(max(_sys.getrecursionlimit(), 60 * ex.range_limit))
        ex.max_steps = max(ex.max_steps, 400 * ex.range_limit)
        ex.attr_entries, ex.attr_matrices = [], {}
        try:
            r = run_case(H, ex, case)
            res['paths'] += 1
            res['ok' if r == 'ok' else 'err'] += 1
            stats.paths += 1
        except Infeasible:
            res['infeasible'] += 1
        except Violation as v:
            res['paths'] += 1
            key = v.label.split(':')[0]
            if key not in seen:
                seen.add(key)
                model = None
                try:
                    if ex.solver.check() == z3.sat:
                        m = ex.solver.model()
                        model = {d.name(): (m[d].as_long() if hasattr(m[d], 'as_long') else str(m[d])) for d in m.decls()}
                except Exception:
                    pass
                rec = dict(label=v.label, case={k: v_ for k, v_ in case.items()}, model=model, decisions=list(ex.taken))
                try:
                    ok_, path_, detail_ = confirm(H, ex, case, v.label, ex.attr_entries, ex.attr_matrices)
                except Exception as e_:
                    ok_, path_, detail_ = False, None, 'replay machinery failed: %r' % (e_,)
                rec.update(confirmed=ok_, replay=path_, replay_detail=detail_)
                res['violations'].append(rec)
            if len(res['violations']) >= max_viol:
                break
        except PanicPath as p:
            res['paths'] += 1
            lbl = 'C13.panic: %s at %s' % (p.msg, p.site)
            rec = dict(label=lbl, case=dict(case), model=None, decisions=list(ex.taken))
            try:
                ok_, path_, detail_ = confirm(H, ex, case, lbl, ex.attr_entries, ex.attr_matrices)
            except Exception as e_:
                ok_, path_, detail_ = False, None, 'replay machinery failed: %r' % (e_,)
            rec.update(confirmed=ok_, replay=path_, replay_detail=detail_)
            res['violations'].append(rec)
            break
        except (Unsupported, BoundExceeded) as u:
            res['unsupported'] = '%s: %s' % (type(u).__name__, u)
            break
        work.extend(ex.pending)
        if res['paths'] + res['infeasible'] > max_paths:
            res['unsupported'] = 'path bound %d exceeded' % max_paths
            break
        if time.time() - t0 > budget_s:
            res['unsupported'] = 'time budget %ds exceeded after %d paths' % (budget_s, res['paths'])
            break
    return res


# ----------------------------------------------------------------------------- native replay
def _ev(m, t):
    v = m.eval(t, model_completion=True)
    if z3.is_true(v):
        return True
    if z3.is_false(v):
        return False
    return v.as_long()


def _signed(v, bits):
    return v - (1 << bits) if v >= 1 << (bits - 1) else v


def concretize_logical(m, kind, lg):
    e = lambda x: _ev(m, x.t)
    if kind in ('BinaryString', 'String'):
        return [e(b) for b in lg]
    if kind == 'Bool':
        return bool(e(lg))
    if kind == 'Int32':
        return _signed(e(lg), 32)
    if kind in ('Float32', 'Float64', 'BrickColor'):
        return e(lg)
    if kind == 'UDim':
        return [e(lg[0]), _signed(e(lg[1]), 32)]
    if kind == 'UDim2':
        return [e(lg[0][0]), _signed(e(lg[0][1]), 32), e(lg[1][0]), _signed(e(lg[1][1]), 32)]
    if kind in ('Color3', 'Vector2', 'Vector3', 'NumberRange'):
        return [e(x) for x in lg]
    if kind == 'Rect':
        return [e(lg[0][0]), e(lg[0][1]), e(lg[1][0]), e(lg[1][1])]
    if kind == 'EnumItem':
        return [[e(b) for b in lg[0]], e(lg[1])]
    if kind == 'NumberSequence':
        return [[e(t), e(v), e(en)] for t, v, en in lg]
    if kind == 'ColorSequence':
        return [[e(t), e(c[0]), e(c[1]), e(c[2])] for t, c in lg]
    if kind == 'Font':
        return [e(lg[0]), e(lg[1]), [e(b) for b in lg[2]], [e(b) for b in lg[3]] if lg[3] else None]
    return None


def confirm(H, ex, case, label, entries, matrices):
    import json, hashlib
    from .. import gen
    if ex.solver.check() != z3.sat:
        return False, None, 'path condition unsatisfiable at report time'
    m = ex.solver.model()
    os.makedirs(C.REPLAYS, exist_ok=True)
    prop = label.split('.')[0]
    if case['what'] == 'partition':
        data = bytes(_ev(m, z3.BitVec('in%d' % i, 8)) for i in range(case['len']))
        sched = list(getattr(ex, 'partition_log', []))
        path = os.path.join(C.REPLAYS, '%s_attr_partition_%s.json' % (prop, hashlib.sha256(data + bytes(sched)).hexdigest()[:10]))
        _, o1, _ = C.run([gen.tool('replayer'), 'bytes', 'attr-decode', data.hex()], timeout=60)
        _, o2, _ = C.run([gen.tool('replayer'), 'bytes', 'attr-decode-choppy', data.hex(), json.dumps(sched)], timeout=60)

        def cls(o):
            try:
                j = json.loads(o.strip().split('\n')[-1])
                return ('ok', json.dumps(j['ok'])) if 'ok' in j else ('err', '')
            except ValueError:
                return ('other', o.strip()[-100:])
        ok = cls(o1) != cls(o2)
        json.dump(dict(property=prop, label=label, input_hex=data.hex(), schedule=sched, oneshot=o1.strip()[-300:], choppy=o2.strip()[-300:], confirmed=ok,
                       how='tools/replayer bytes attr-decode <hex> vs attr-decode-choppy <hex> <schedule>'), open(path, 'w'), indent=1)
        return ok, path, 'native one-shot: %s / native with schedule %s: %s' % (o1.strip()[-80:], sched, o2.strip()[-80:])
    if case['what'] == 'fuzz':
        data = bytes(_ev(m, z3.BitVec('in%d' % i, 8)) for i in range(case['len']))
        path = os.path.join(C.REPLAYS, '%s_attr_%s.json' % (prop, hashlib.sha256(data).hexdigest()[:10]))
        cmd = [gen.tool('replayer'), 'bytes', 'attr-decode', data.hex()]
        if 'alloc' in label:
            rc, out, _ = C.run(['bash', '-c', 'ulimit -v 600000; exec %s' % ' '.join(cmd)], timeout=60)
            ok = rc != 0 and ('memory allocation' in out or 'PANIC' in out or rc in (134, -6, 101))
            detail = 'native run under a 600 MB address-space limit: rc=%d %s' % (rc, out.strip()[-120:])
        else:
            rc, out, _ = C.run(cmd, timeout=60)
            ok = 'PANIC' in out
            detail = 'native: ' + out.strip()[-160:]
        json.dump(dict(property=prop, label=label, input_hex=data.hex(), native=out[-400:], confirmed=ok, how='tools/replayer bytes attr-decode <input_hex>'), open(path, 'w'), indent=1)
        return ok, path, detail
    # write / round-trip cases
    ents = []
    for name, kind, val, lg in entries:
        if kind == 'CFrame':
            pos, rot = lg
            mat = matrices.get(id(lg))
            v = [_ev(m, x.t) for x in pos] + [_ev(m, x.t) for x in mat]
        else:
            v = concretize_logical(m, kind, lg)
        ents.append(dict(name=[_ev(m, b.t) for b in name], kind=kind, v=v))
    scn = dict(entries=ents)
    path = os.path.join(C.REPLAYS, '%s_attr_%s.json' % (prop, hashlib.sha256(json.dumps(scn, sort_keys=True).encode()).hexdigest()[:10]))
    json.dump(scn, open(path, 'w'))
    rc, out, _ = C.run([gen.tool('replayer'), 'bytes', 'attr-roundtrip', path], timeout=60)
    try:
        nat = json.loads(out.strip().split('\n')[-1])
    except ValueError:
        nat = {'error': out[-300:]}
    spec_concrete = None
    try:
        order = sorted(range(len(entries)), key=lambda i: bytes(ents[i]['name']))
        spec_terms = H.spec.blob([(entries[i][0], entries[i][1], entries[i][3]) for i in order])
        spec_concrete = bytes(_ev(m, t) if not isinstance(t, int) else t for t in spec_terms).hex()
    except Exception as e_:
        spec_concrete = None
    ok, detail = False, ''
    if 'PANIC' in out:
        ok, detail = True, 'native run panics: ' + out.strip()[-160:]
    elif 'error' in nat:
        detail = 'native run failed: ' + nat['error']
    elif 'layout' in label:
        ok = spec_concrete is not None and nat.get('bytes') != spec_concrete
        detail = 'native bytes %s, documented layout %s' % (nat.get('bytes'), spec_concrete)
    elif 'write' in label:
        ok = 'write_err' in nat
        detail = 'native: ' + str(nat)[:160]
    elif 'read' in label:
        ok = 'read_err' in nat
        detail = 'native: ' + str(nat)[:200]
    else:
        exp = json.loads(json.dumps(nat.get('input')))
        for e in exp or []:
            if 'String' in e[1]:
                e[1] = {'BinaryString': e[1]['String']}
        ok = nat.get('decoded') is not None and nat.get('decoded') != exp
        detail = 'native decode(encode(m)) = %s, expected %s' % (str(nat.get('decoded'))[:150], str(exp)[:150])
    json.dump(dict(scn, property=prop, label=label, native=nat, spec_bytes=spec_concrete, confirmed=ok, detail=detail, how='tools/replayer bytes attr-roundtrip <this file>'), open(path, 'w'), indent=1)
    return ok, path, detail
