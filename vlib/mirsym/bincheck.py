"""rbx_binary byte-level obligations (C13 / C04): Chunk::decode, chunk-body decoders on symbolic bytes."""
import time, os
import z3
from .values import *
from .interp import Exec, Stats
from .rbx_models import RbxModels, World
from .models import deref
from . import iomodels


def make_models(prog=None):
    M = RbxModels()
    iomodels.register(M)
    if prog is not None:
        M.register_bitflags(prog)

    @M.rx(r'^(lz4::block::decompress|zstd::bulk::decompress)$', 'lz4/zstd decompress (contract: Err, or Ok(bytes) with length <= the size argument)')
    def _decompress(ex, m, args, callee, dest):
        size = args[1]
        if isinstance(size, Enum):          # Option<i32> for lz4
            ex.force(size)
            size = size.f[0] if size.variant == 'Some' else None
        if getattr(ex, 'decomp_exact', False):
            # framing obligation: the decompressor either fails or returns exactly the announced number of (arbitrary) bytes
            ex.decomp_called = True
            if ex.nondet(2, 'decompressor outcome') == 1:
                return Err(iomodels.io_error('InvalidData'))
            n_ = size.concrete() if size is not None else None
            if n_ is None:
                raise Unsupported('decompressor size argument is symbolic')
            ex.decomp_out = [sym_int(ex.fresh('dec'), 'u8') for _ in range(n_)]
            return Ok(VecM(list(ex.decomp_out)))
        lim = getattr(ex, 'decomp_limit', 4)
        k = ex.nondet(lim + 2, 'decompressor outcome')
        if k == lim + 1:
            return Err(iomodels.io_error('InvalidData'))
        if size is not None:
            w = size.t.size()
            ex.assume(z3.UGE(size.t, z3.BitVecVal(k, w)) if size.ty not in SIGNED else size.t >= k)
            if not ex.sat():
                raise Infeasible()
        ex.world.decomp_calls = getattr(ex.world, 'decomp_calls', 0) + 1
        return Ok(VecM([sym_int(ex.fresh('dec'), 'u8') for _ in range(k)]))

    # ---- SharedString as a value (contract: content + a hash that is an injective function of the content; the interning table,
    # its locking and the reference counts are the subject of C18, not of the codecs)
    def ss_make(ex, content):
        w = getattr(ex.world, 'ss_values', None)
        if w is None:
            w = ex.world.ss_values = []
        h = z3.BitVec(ex.fresh('blake3'), 256)
        for oc, oh in w:
            same = z3.And([a.t == b_.t for a, b_ in zip(content, oc)]) if len(oc) == len(content) else z3.BoolVal(False)
            ex.assume((h == oh) == (same if len(content) else z3.BoolVal(len(oc) == 0)))
        w.append((list(content), h))
        return Struct([VecM(list(content)), Sc(h, 'hash256')], 'SharedString')
    M.ss_make = ss_make

    @M.path('SharedString', ['new', 'data', 'hash', 'clone', 'eq', 'as_ref', 'drop'], override=True)
    def _shared_string(ex, args, info):
        mth = info.method
        if mth == 'new':
            v = deref(args[0])
            return ss_make(ex, list(v.items))
        me = deref(args[0])
        if mth in ('data', 'as_ref'):
            return SliceRef(Ptr(Cell(me.f[0])), 0, len(me.f[0].items))
        if mth == 'hash' and len(args) == 1:
            return Struct([me.f[1]], 'SharedStringHash')
        if mth == 'clone':
            return Struct([me.f[0], me.f[1]], 'SharedString')
        if mth == 'eq':
            return Sc(z3.simplify(me.f[1].t == deref(args[1]).f[1].t), 'bool')
        if mth == 'drop':
            return Unit()
        raise Unsupported('SharedString::' + mth)

    @M.rx(r'(^|::)full_name_for$', 'SerializerState::full_name_for (stub: text that only reaches error messages)')
    def _full_name(ex, m, args, callee, dest):
        return StrV(None, z3.Int(ex.fresh('fullname')))

    @M.rx(r'^(lz4::block::compress|zstd::bulk::compress)$', 'lz4/zstd compress (contract: Err, or Ok(some bytes))')
    def _compress(ex, m, args, callee, dest):
        lens = getattr(ex, 'compress_lens', None)
        if lens is not None:
            # contract used by the framing obligation: an error, or arbitrary bytes of one of the given (non-zero) lengths
            k = ex.nondet(len(lens) + 1, 'compressor outcome')
            if k == len(lens):
                return Err(iomodels.io_error('Other'))
            out = VecM([sym_int(ex.fresh('cmp'), 'u8') for _ in range(lens[k])])
            ex.compressed_out = out.items
            return Ok(out)
        k = ex.nondet(3, 'compressor outcome')
        if k == 2:
            return Err(iomodels.io_error('Other'))
        return Ok(VecM([sym_int(ex.fresh('cmp'), 'u8') for _ in range(5 if k else 0)]))
    return M


# kinds for which docs/binary.md does not pin the byte layout down (UniqueId: byte order / rotation of the fields are not stated;
# SecurityCapabilities: no section): decided by write -> read only, never against the spec encoder
NOSPEC = ('UniqueId', 'SecurityCapabilities')

HEADER = b'<roblox!\x89\xff\x0d\x0a\x1a\x0a\x00\x00'


def B(bs):
    return [mk_int(b, 'u8') for b in bs]


def u32le(n):
    return list((n & 0xffffffff).to_bytes(4, 'little'))


def chunk(name, body):
    """uncompressed chunk framing (docs/binary.md "Chunks"); body: list of Sc u8"""
    nm = (name + b'\0\0\0\0')[:4]
    return B(nm) + B(u32le(0)) + B(u32le(len(body))) + B(u32le(0)) + list(body)


def file_header(num_types, num_instances):
    return B(HEADER) + B(u32le(num_types)) + B(u32le(num_instances)) + B(bytes(8))


END = chunk(b'END\0', B(b'</roblox>'))


# ---------------------------------------------------------------- spec encoder pieces (docs/binary.md), symbolic
def be_bytes(t, n):
    return [z3.simplify(z3.Extract(8 * i + 7, 8 * i, t)) for i in reversed(range(n))]


def zigzag32(t):
    return z3.simplify((t << 1) ^ (t >> 31))


def interleave(rows):
    """rows: list of equal-length byte lists (one per value) -> bytes column by column"""
    if not rows:
        return []
    w = len(rows[0])
    return [Sc(rows[i][j], 'u8') for j in range(w) for i in range(len(rows))]


def referent_array(refs):
    """docs "Referent": delta coded against the previous value (first against 0), zigzag, big endian, interleaved"""
    rows, last = [], z3.BitVecVal(0, 32)
    for r in refs:
        rows.append(be_bytes(zigzag32(z3.simplify(r - last)), 4))
        last = r
    return interleave(rows)


def spec_string(b):
    return B(u32le(len(b))) + B(b)


def sym_u32le(t):
    return [Sc(z3.simplify(z3.Extract(8 * i + 7, 8 * i, t)), 'u8') for i in range(4)]


def inst_chunk(class_id, name, refs, service=False):
    body = sym_u32le(class_id) + spec_string(name) + B([1 if service else 0]) + B(u32le(len(refs))) + referent_array(refs)
    if service:
        body += B([1] * len(refs))
    return chunk(b'INST', body)


def prnt_chunk(children, parents):
    body = B([0]) + B(u32le(len(children))) + referent_array(children) + referent_array(parents)
    return chunk(b'PRNT', body)


class BinHarness:
    def __init__(self, prog):
        self.prog = prog
        self.F_CHUNK = prog.resolve('Chunk::decode')
        self.F_DESER = prog.resolve('Deserializer::deserialize')
        if self.F_CHUNK is None or self.F_DESER is None:
            raise Unsupported('Chunk::decode / Deserializer::deserialize not found in MIR')

    def S(self, struct_, **kw):
        fields = self.prog.structs.get(struct_)
        if fields is None or set(fields) != set(kw):
            raise Unsupported('struct layout of %s is %s, harness expects %s' % (struct_, fields, sorted(kw)))
        return Struct([kw[f] for f in fields], struct_)

    def database(self, classes=None):
        """a reflection database value: classes = {name: dict(superclass=None|name, properties={name: descriptor}, defaults={})}"""
        cm = MapM([], kind='HashMap')
        for cn, c in (classes or {}).items():
            props = MapM([[StrV.lit(pn), Cell(self.prop_descriptor(pn, **pd) if isinstance(pd, dict) else pd)] for pn, pd in c.get('properties', {}).items()], kind='HashMap')
            defaults = MapM([[StrV.lit(pn), Cell(self.const_value(*v) if isinstance(v, (tuple, list)) else v)] for pn, v in c.get('defaults', {}).items()], kind='HashMap')
            sup = Some(StrV.lit(c['superclass'])) if c.get('superclass') else NoneV()
            cd = self.S('ClassDescriptor', name=StrV.lit(cn), tags=SetM([Enum('ClassTag', t) for t in c.get('tags', [])]), superclass=sup, properties=props, default_properties=defaults)
            cm.entries.append([StrV.lit(cn), Cell(cd)])
        return self.S('ReflectionDatabase', version=ArrayV([mk_int(0, 'u32')] * 4), classes=cm, enums=MapM([], kind='HashMap'))

    def prop_descriptor(self, name, variant_type=None, enum_type=None, kind=('Canonical', 'Serializes')):
        """PropertyDescriptor value.  kind: ('Canonical', 'Serializes'|'DoesNotSerialize') | ('Canonical', ('SerializesAs', name)) | ('Alias', name)"""
        dt = Enum('DataType', 'Enum', [StrV.lit(enum_type)]) if enum_type else Enum('DataType', 'Value', [Enum('VariantType', variant_type)])
        if kind[0] == 'Alias':
            k = Enum('PropertyKind', 'Alias', [StrV.lit(kind[1])])
        else:
            ser = kind[1]
            if isinstance(ser, (tuple, list)) and ser[0] == 'Migrate':
                pm = self.S('PropertyMigration', new_property_name=StrV.lit(ser[1]), migration=Enum('MigrationOperation', ser[2]))
                sv = Enum('PropertySerialization', 'Migrate', [pm])
            else:
                sv = Enum('PropertySerialization', ser[0], [StrV.lit(ser[1])]) if isinstance(ser, (tuple, list)) else Enum('PropertySerialization', ser)
            k = Enum('PropertyKind', 'Canonical', [sv])
        return self.S('PropertyDescriptor', name=StrV.lit(name), scriptability=Enum('Scriptability', 'None'), data_type=dt, tags=SetM([]), kind=k)

    def const_value(self, kind, nums):
        """a concrete Variant of `kind` from a dict field -> number (bit patterns), through the same builder as symbolic values"""
        v = {}
        for fld, w in FIELDS[kind]:
            x = nums[fld]
            v[fld] = z3.BoolVal(bool(x)) if w == 'bool' else z3.BitVecVal(x, w)
        return build_value(self, expected_variant(self, kind, v, {}, 0))

    def deserializer(self, db):
        return self.S('Deserializer', database=Ptr(Cell(db)))


def le32(bs):
    return z3.Concat(*[b.t for b in reversed(bs)])


def run_case(H, ex, case):
    what = case['what']
    if what == 'chunk':
        n = case['len']
        data = [sym_int('in%d' % i, 'u8') for i in range(n)]
        for i, b in case.get('fixed', {}).items():
            ex.assume(data[i].t == b)
        ex.input_bytes = data
        cur = iomodels.CursorV(data)
        ex.alloc_limit = n + 1
        try:
            res = ex.force(ex.call_fn(H.F_CHUNK, [Ptr(Cell(cur))]))
        except PanicPath as p:
            raise Violation('C13.panic[chunk_decode_panic:%s]: Chunk::decode panics on %d input bytes: %s at %s' % (str(getattr(p, 'where', '?')).replace(' ', '_'), n, p.msg, p.site))
        for callee, term, site in ex.alloc_requests:
            w = term.t.size()
            if ex.sat(z3.UGT(term.t, z3.BitVecVal(max(1 << 16, 16 * n), w))):
                ex.assume(z3.UGT(term.t, z3.BitVecVal(max(1 << 16, 16 * n), w)))
                if w > 30 and ex.sat(z3.UGE(term.t, z3.BitVecVal(1 << 30, w))):
                    ex.assume(z3.UGE(term.t, z3.BitVecVal(1 << 30, w)))        # a witness that shows natively (address-space limit)
                raise Violation('C13.alloc[chunk_decode_alloc]: %s is asked for a buffer whose size comes straight from the chunk header (can exceed 64 KiB and 16x the %d input bytes) at %s' % (callee.split('::<')[0], n, site))
        if res.variant == 'Ok':
            # framing semantics (docs/binary.md "Chunks"): name, compressed len, len, reserved = 0, data
            if n < 16:
                raise Violation('C13.trunc: a chunk is accepted from %d bytes (header needs 16)' % n)
            ch = res.f[0]
            name = ch.f[H.prog.field('Chunk', 'name')]
            body = ch.f[H.prog.field('Chunk', 'data')]
            clen, ulen, rsv = le32(data[4:8]), le32(data[8:12]), le32(data[12:16])
            if ex.sat(z3.Or([x.t != y.t for x, y in zip(name.items, data[0:4])])):
                raise Violation('C04.chunk: chunk name is not the first four bytes')
            if ex.sat(rsv != 0):
                pass        # spec says "always 0"; accepting other values is lenient, not a violation
            if ex.sat(ulen != len(body.items)):
                raise Violation('C04.chunk: decoded chunk has %d bytes, header announces another length' % len(body.items))
            if not ex.sat(clen != 0):
                # uncompressed: data = the next `len` bytes
                if len(body.items) > n - 16:
                    raise Violation('C13.trunc: uncompressed chunk accepted with fewer bytes than announced')
                if body.items and ex.sat(z3.Or([x.t != y.t for x, y in zip(body.items, data[16:16 + len(body.items)])])):
                    raise Violation('C04.chunk: uncompressed chunk data differs from the bytes in the file')
            return 'ok'
        # Err: fine for C13; for C04 a well-formed uncompressed chunk must be accepted
        if n >= 16:
            clen, ulen, rsv = le32(data[4:8]), le32(data[8:12]), le32(data[12:16])
            wellformed = z3.And(clen == 0, rsv == 0, z3.ULE(ulen, n - 16))
            if ex.sat(wellformed):
                ex.assume(wellformed)
                raise Violation('C04.chunk: a well-formed uncompressed chunk is rejected')
        return 'err'
    if what == 'cchunk':
        # a compressed chunk: 4 symbolic name bytes, compressed length c, length u, reserved 0, c symbolic body bytes
        c, u = case['clen'], case['ulen']
        name = [sym_int('nm%d' % i, 'u8') for i in range(4)]
        bodyb = [sym_int('cb%d' % i, 'u8') for i in range(c)]
        data = name + B(u32le(c)) + B(u32le(u)) + B(u32le(0)) + bodyb
        ex.input_bytes = data
        ex.decomp_exact, ex.decomp_called, ex.decomp_out = True, False, None
        ex.alloc_limit = len(data) + u + 1
        try:
            res = ex.force(ex.call_fn(H.F_CHUNK, [Ptr(Cell(iomodels.CursorV(data)))]))
        except PanicPath as p:
            raise Violation('C13.panic[cchunk]: Chunk::decode panics on a compressed chunk: %s at %s' % (p.msg, p.site))
        if res.variant == 'Ok':
            if ex.decomp_out is None:
                raise Violation('C04.chunk[cchunk]: a compressed chunk is accepted without decompressing it')
            got = res.f[0].f[H.prog.field('Chunk', 'data')].items
            if len(got) != u or (u and ex.sat(z3.Or([a.t != b_.t for a, b_ in zip(got, ex.decomp_out)]))):
                raise Violation('C04.chunk[cchunk]: chunk data is not the decompressor output')
            return 'ok'
        if ex.decomp_out is not None:
            raise Violation('C04.chunk[cchunk_reject:%d:%d]: a well-formed compressed chunk (compressed length %d, length %d) is rejected although the decompressor returned the announced %d bytes' % (c, u, c, u, u))
        if not ex.decomp_called:
            raise Violation('C04.chunk[cchunk_reject:%d:%d]: a well-formed compressed chunk (compressed length %d, length %d) is rejected before decompression' % (c, u, c, u))
        return 'err'
    if what == 'file':
        # a file assembled by the case (list of Sc u8, partly symbolic) through the real Deserializer::deserialize
        data = case['build'](H, ex) if 'build' in case else build_file(H, ex, case)
        ex.input_bytes = data
        cur = iomodels.CursorV(data)
        ex.alloc_limit = len(data) + 1
        de = H.deserializer(H.database(case.get('classes')))
        try:
            res = ex.force(ex.call_fn(H.F_DESER, [Ptr(Cell(de)), Ptr(Cell(cur))]))
        except PanicPath as p:
            raise Violation('C13.panic[%s:%s]: deserialize panics on a %d-byte file: %s at %s' % (case.get('tag', 'file'), str(getattr(p, 'where', '?')).replace(' ', '_'), len(data), p.msg, p.site))
        n = len(data)
        for callee, term, site in ex.alloc_requests:
            w = term.t.size()
            if ex.sat(z3.UGT(term.t, z3.BitVecVal(max(1 << 16, 16 * n), w))):
                ex.assume(z3.UGT(term.t, z3.BitVecVal(max(1 << 16, 16 * n), w)))
                if w > 30 and ex.sat(z3.UGE(term.t, z3.BitVecVal(1 << 30, w))):
                    ex.assume(z3.UGE(term.t, z3.BitVecVal(1 << 30, w)))        # a witness that shows natively (address-space limit)
                raise Violation('C13.alloc[%s_alloc:%s]: %s is asked for a buffer whose size comes straight from the file (can exceed 64 KiB and 16x the %d input bytes) at %s' % (case.get('tag', 'file'), str(site[1]) if site else '?', callee.split('::<')[0], n, site))
        post = case.get('post')
        if post:
            post(H, ex, res)
        if 'gen' in case:
            post_prefix(H, ex, res, case)
        return 'ok' if res.variant == 'Ok' else 'err'
    if what == 'tree':
        return tree_case(H, ex, case)
    if what == 'prop':
        return prop_case(H, ex, case)
    if what == 'migr':
        return migr_case(H, ex, case)
    if what == 'prop2':
        return prop2_case(H, ex, case)
    if what == 'dump':
        # ChunkBuilder::dump(CompressionType::None) into a sink with room for k bytes
        n, k = case['len'], case['room']
        body = [sym_int('b%d' % i, 'u8') for i in range(n)]
        comp = case.get('comp', 'None')
        cb = H.S('ChunkBuilder', chunk_name=SliceRef(Ptr(Cell(ArrayV(B(b'PROP')))), 0, 4), compression=Enum('CompressionType', comp), buffer=VecM(list(body)))
        if comp != 'None':
            # compressed chunk framing (docs/binary.md "Chunks"): compressed length = number of body bytes that follow, which are
            # the compressor's output; or compressed length 0 and the body is the raw data.  The compressor is a contract stub
            # returning arbitrary bytes of length n-1, n, n+1 or 1.
            ex.compress_lens = sorted({1, max(1, n - 1), max(1, n), n + 1})
            ex.compressed_out = None
            sink = iomodels.SinkV(limit=None)
            fn = H.prog.resolve('ChunkBuilder::dump')
            try:
                res = ex.force(ex.call_fn(fn, [cb, Ptr(Cell(sink))]))
            except PanicPath as p:
                raise Violation('C03.panic[dump_%s]: ChunkBuilder::dump panics: %s' % (comp, p.msg))
            if res.variant != 'Ok':
                if ex.compressed_out is not None:
                    raise Violation('C03.chunk[dump_%s]: ChunkBuilder::dump fails although compressor and sink succeeded' % comp)
                return 'err'
            o = sink.out
            if len(o) < 16 or ex.sat(z3.Or([a.t != b_.t for a, b_ in zip(o[:4], B(b'PROP'))])) or ex.sat(le32(o[8:12]) != n) or ex.sat(le32(o[12:16]) != 0):
                raise Violation('C03.chunk[dump_%s]: chunk header (name, length, reserved) differs from docs/binary.md' % comp)
            clen_t = z3.simplify(le32(o[4:8]))
            if not z3.is_bv_value(clen_t):
                raise Violation('C03.chunk[dump_%s]: compressed length field is not determined' % comp)
            clen, bodyb, cz = clen_t.as_long(), o[16:], ex.compressed_out or []
            if clen == 0:
                if len(bodyb) != n or (n and ex.sat(z3.Or([a.t != b_.t for a, b_ in zip(bodyb, body)]))):
                    raise Violation('C03.chunk[dump_%s_raw]: header announces an uncompressed chunk (compressed length 0) but the body is not the raw data (compressor output %d bytes, data %d bytes)' % (comp, len(cz), n))
            else:
                if clen != len(bodyb) or len(bodyb) != len(cz) or ex.sat(z3.Or([a.t != b_.t for a, b_ in zip(bodyb, cz)])):
                    raise Violation('C03.chunk[dump_%s_len]: compressed length field %d, %d body bytes, compressor output %d bytes' % (comp, clen, len(bodyb), len(cz)))
            return 'ok'
        sink = iomodels.SinkV(limit=k)
        fn = H.prog.resolve('ChunkBuilder::dump')
        try:
            res = ex.force(ex.call_fn(fn, [cb, Ptr(Cell(sink))]))
        except PanicPath as p:
            raise Violation('C13.panic[dump]: ChunkBuilder::dump panics when the sink fails: %s' % p.msg)
        total = 16 + n
        if res.variant == 'Ok' and len(sink.out) < total:
            raise Violation('C13.sink[chunk_dump_sink]: ChunkBuilder::dump reports success although only %d of %d bytes reached the sink (room for %d)' % (len(sink.out), total, k))
        if res.variant == 'Err' and k >= total:
            raise Violation('C13.sink: ChunkBuilder::dump fails although the sink has room for everything')
        if res.variant == 'Ok':
            spec = B(b'PROP') + B(u32le(0)) + B(u32le(n)) + B(u32le(0)) + body
            if ex.sat(z3.Or([a.t != b_.t for a, b_ in zip(sink.out, spec)])):
                raise Violation('C03.chunk: uncompressed chunk framing differs from docs/binary.md (name, 0, len, 0, data)')
        return 'ok' if res.variant == 'Ok' else 'err'
    raise Unsupported('case ' + what)


def mini_file():
    """a small valid file (concrete): one Folder-like instance of unknown class "A" under the root, META, no properties"""
    r0 = z3.BitVecVal(0, 32)
    return (file_header(1, 1) + chunk(b'META', B(u32le(1)) + spec_string(b'ExplicitAutoJoints') + spec_string(b'true'))
            + inst_chunk(z3.BitVecVal(0, 32), b'A', [r0]) + prnt_chunk([r0], [z3.BitVecVal(0xffffffff, 32)]) + END)


def build_file(H, ex, case):
    g = case['gen']
    if g == 'chunkbody':
        body = [sym_int('m%d' % i, 'u8') for i in range(case['n'])]
        pre = []
        if case.get('with_inst'):
            pre = inst_chunk(z3.BitVecVal(0, 32), b'A', [z3.BitVecVal(0, 32)])
        return file_header(0, 0) + pre + chunk(case['kind'].encode(), body) + END
    if g == 'propfuzz':
        # one instance of unknown class "A", one PROP chunk "P" of wire type `tid` whose value bytes are arbitrary
        body = B(u32le(0)) + spec_string(b'P') + B([case['tid']]) + [sym_int('v%d' % i, 'u8') for i in range(case['n'])]
        r0 = z3.BitVecVal(0, 32)
        return file_header(1, 1) + inst_chunk(r0, b'A', [r0]) + chunk(b'PROP', body) + prnt_chunk([r0], [z3.BitVecVal(0xffffffff, 32)]) + END
    if g == 'header':
        return B(HEADER) + [sym_int('h%d' % i, 'u8') for i in range(8)] + B(bytes(8)) + END
    if g == 'prefix':
        return mini_file()[:case['k']]
    if g == 'whole':
        return mini_file()
    if g == 'noend':
        return mini_file()[:-25] + [sym_int('t%d' % i, 'u8') for i in range(case.get('n', 0))]
    raise Unsupported('file generator ' + g)


def post_prefix(H, ex, res, case):
    if case['gen'] == 'prefix' and res.variant == 'Ok':
        raise Violation('C13.trunc[accepts_prefix]: a strict prefix (%d of %d bytes) of a valid file is accepted' % (case['k'], len(mini_file())))
    if case['gen'] == 'whole' and res.variant != 'Ok':
        raise Violation('C04.reject: the valid mini file is rejected')
    if case['gen'] == 'noend' and res.variant == 'Ok':
        raise Violation('C13.trunc[accepts_prefix]: a file without END chunk is accepted')


def tree_case(H, ex, case):
    """C04 M8/M6: a spec-conformant file for a forest, with every degree of freedom the spec leaves open chosen
    symbolically or by nondet (referent numbers, class ids, INST chunk order, PRNT row order, optional chunks, service
    format); the decoded DOM must be the described forest."""
    import itertools
    from .domcheck import DomHarness, Atoms
    shape = case['shape']                       # parent index per node or -1 (root)
    classes = case['classes']                   # class name per node
    n = len(shape)
    refs = [z3.BitVec('ref%d' % i, 32) for i in range(n)]
    for r in refs:
        ex.assume(z3.And(r >= 0, r < (1 << 30)))
    if n > 1:
        ex.assume(z3.Distinct(*refs))
    cls_names = sorted(set(classes))
    cids = {c: z3.BitVec('cid_%s' % c, 32) for c in cls_names}
    if len(cids) > 1:
        ex.assume(z3.Distinct(*cids.values()))
    # INST chunks in any order; within a class the instances in any order
    inst_order = list(itertools.permutations(cls_names))[ex.nondet(len(list(itertools.permutations(cls_names))), 'INST chunk order')] if len(cls_names) > 1 else cls_names
    chunks = []
    if case.get('meta') and ex.nondet(2, 'META present') == 1:
        chunks.append(chunk(b'META', B(u32le(1)) + spec_string(b'ExplicitAutoJoints') + spec_string(b'true')))
    for c in inst_order:
        members = [i for i in range(n) if classes[i] == c]
        chunks.append(inst_chunk(cids[c], c.encode(), [refs[i] for i in members], service=bool(case.get('service')) and ex.nondet(2, 'service format') == 1))
        if case.get('unknown') and c == inst_order[0] and ex.nondet(2, 'unknown chunk') == 1:          # at most one per file, after the first INST chunk
            # an unknown chunk: any four name bytes that are not one of the names the format defines
            # (one symbolic byte: any first byte that no defined name starts with, or "END" + any non-zero byte)
            u = sym_int(ex.fresh('uname'), 'u8')
            if ex.nondet(2, 'unknown chunk name shape') == 0:
                ex.assume(z3.And([u.t != c_ for c_ in b'MSIPE']))
                nm = [u] + B(b'YZW')
            else:
                ex.assume(u.t != 0)
                nm = B(b'END') + [u]
            chunks.append(nm + B(u32le(0)) + B(u32le(3)) + B(u32le(0)) + [sym_int(ex.fresh('junk'), 'u8') for _ in range(3)])
    perms = list(itertools.permutations(range(n)))
    row_order = (perms[case['row']] if 'row' in case else perms[ex.nondet(len(perms), 'PRNT row order')]) if n > 1 else (0,)
    chunks.append(prnt_chunk([refs[i] for i in row_order], [refs[shape[i]] if shape[i] >= 0 else z3.BitVecVal(0xffffffff, 32) for i in row_order]))
    data = file_header(len(cls_names), n)
    for c in chunks:
        data += c
    data += END
    ex.input_bytes = data
    ex.alloc_limit = len(data) + 1
    pre = [('DataModel', None)]

    def walk(i, ppos):
        pre.append((classes[i], ppos))
        me = len(pre) - 1
        for j in row_order:
            if shape[j] == i:
                walk(j, me)
    for j in row_order:
        if shape[j] < 0:
            walk(j, 0)
    ex.c04_tree = [[c, p_] for c, p_ in pre]
    de = H.deserializer(H.database({}))
    try:
        res = ex.force(ex.call_fn(H.F_DESER, [Ptr(Cell(de)), Ptr(Cell(iomodels.CursorV(data)))]))
    except PanicPath as p:
        raise Violation('C04.panic[tree:%s]: deserialize panics on a spec-conformant file: %s at %s' % (str(getattr(p, 'where', '?')).replace(' ', '_'), p.msg, p.site))
    if res.variant != 'Ok':
        raise Violation('C04.reject: a spec-conformant file (forest %s, classes %s) is rejected' % (list(shape), classes))
    dom = res.f[0]
    DH = DomHarness(H.prog)
    A = Atoms(ex)
    d = DH.snapshot(ex, A, dom)
    v = DH.inv_violations(ex, d, 'decoded DOM')
    if v:
        raise Violation('C04.tree: decoded DOM is not a well-formed forest: ' + '; '.join(v[:2]))
    # expected ordered forest: roots and siblings in PRNT row order
    def kids(i):
        return [j for j in row_order if shape[j] == i]

    def exp_tree(i):
        return (classes[i], [exp_tree(j) for j in kids(i)])
    expected = ('DataModel', [exp_tree(j) for j in row_order if shape[j] < 0])

    def got_tree(k):
        node = d.nodes[k]
        b = node['cls'].concrete_bytes()
        return (b.decode() if b is not None else '?', [got_tree(c) for c in node['children']])
    got = got_tree(d.root)
    if got != expected:
        raise Violation('C04.tree: decoded forest %s, the file describes %s (PRNT rows %s)' % (got, expected, list(row_order)))
    if len(d.nodes) != n + 1:
        raise Violation('C04.tree: %d instances decoded, %d described' % (len(d.nodes) - 1, n))
    for k, node in d.nodes.items():
        if k != d.root:
            nb = node['name'].concrete_bytes()
            cb = node['cls'].concrete_bytes()
            if nb != cb:
                raise Violation('C04.tree: instance name %r differs from its class name %r although no Name property was given' % (nb, cb))
    return 'ok'


def explore(prog, case, stats=None, max_paths=50000, budget_s=600, max_viol=6, models=None):
    H = BinHarness(prog)
    stats = stats or Stats()
    M = models or make_models(prog)
    res = dict(paths=0, ok=0, err=0, infeasible=0, violations=[], unsupported=None)
    work = [[]]
    t0 = time.time()
    seen = set()
    while work:
        dec = work.pop()
        ex = Exec(prog, M, dec, stats)
        ex.world = World()
        ex.range_limit = case.get('range_limit', 64)
        if ex.range_limit > 64:
            import sys as _sys
            _sys.setrecursionlimit(max(_sys.getrecursionlimit(), 60 * ex.range_limit))
        ex.max_steps = max(ex.max_steps, 400 * ex.range_limit)
        try:
            r = run_case(H, ex, case)
            res['paths'] += 1
            res['ok' if r == 'ok' else 'err'] += 1
            stats.paths += 1
        except Infeasible:
            res['infeasible'] += 1
        except Violation as v:
            res['paths'] += 1
            import re
            m = re.search(r'\[([\w:]+)\]', v.label)
            key = m.group(1) if m else v.label.split(':')[0]
            if key not in seen:
                seen.add(key)
                rec = dict(label=v.label, case=dict(case), decisions=list(ex.taken))
                try:
                    ok_, path_, detail_ = confirm(H, ex, case, v.label)
                except Exception as e_:
                    ok_, path_, detail_ = False, None, 'replay machinery failed: %r' % (e_,)
                rec.update(confirmed=ok_, replay=path_, replay_detail=detail_)
                res['violations'].append(rec)
            if len(res['violations']) >= max_viol:
                break
        except (Unsupported, BoundExceeded) as u:
            res['unsupported'] = '%s: %s' % (type(u).__name__, u)
            break
        work.extend(ex.pending)
        if res['paths'] + res['infeasible'] > max_paths:
            res['unsupported'] = 'path bound %d exceeded' % max_paths
            break
        if time.time() - t0 > budget_s:
            res['unsupported'] = 'time budget %ds exceeded after %d paths' % (budget_s, res['paths'])
            break
    return res


def model_view(H, m, v):
    """the replayer's bit-exact `view` of a value, computed from a model value under the solver model m"""
    from .values import Sc as _Sc
    if isinstance(v, Sc):
        if v.ty == 'bool':
            return bool(z3.is_true(m.eval(v.t, model_completion=True)))
        x = m.eval(v.t, model_completion=True).as_long()
        if v.ty in ('i8', 'i16', 'i32', 'i64', 'isize'):
            bits = INT_W[v.ty]
            if x >= 1 << (bits - 1):
                x -= 1 << bits
        return x
    if isinstance(v, StrV):
        return [model_view(H, m, b) for b in v.data]
    if isinstance(v, VecM):
        return [model_view(H, m, x) for x in v.items]
    if isinstance(v, Struct):
        if len(v.f) == 1:
            return model_view(H, m, v.f[0])
        out = []
        for f in v.f:
            r = model_view(H, m, f)
            if isinstance(r, list):
                out.extend(r)
            else:
                out.append(r)
        return out
    if isinstance(v, Enum):
        if v.ename == 'Variant' and v.variant == 'OptionalCFrame':
            o = v.f[0]
            return {'OptionalCFrame': None} if o.variant == 'None' else {'CFrame': model_view(H, m, o.f[0])}
        if v.ename == 'Variant' and v.variant == 'Font':
            f_ = v.f[0]
            g_ = lambda nm: f_.f[H.prog.structs['Font'].index(nm)]
            wn = ['Thin', 'ExtraLight', 'Light', 'Regular', 'Medium', 'SemiBold', 'Bold', 'ExtraBold', 'Heavy']
            face = g_('cached_face_id')
            return {'Font': [(wn.index(g_('weight').variant) + 1) * 100, ['Normal', 'Italic'].index(g_('style').variant), model_view(H, m, g_('family')),
                             None if face.variant == 'None' else model_view(H, m, face.f[0])]}
        if v.ename == 'Variant':
            return {v.variant: model_view(H, m, v.f[0])}
        if v.ename == 'BrickColor':
            return H.prog.enums['BrickColor'][v.variant]
        if v.ename == 'PhysicalProperties':
            return None if v.variant == 'Default' else model_view(H, m, v.f[0])
        if v.ename == 'Option':
            return None if v.variant == 'None' else model_view(H, m, v.f[0])
    raise Unsupported('view of %r' % (v,))


def db_json(classes):
    out = {}
    for cn, c in (classes or {}).items():
        def js(x):
            return [js(y) for y in x] if isinstance(x, (tuple, list)) else x
        out[cn] = dict(superclass=c.get('superclass'), tags=list(c.get('tags', [])), properties={pn: {k: js(x) for k, x in pd.items()} for pn, pd in c.get('properties', {}).items()},
                       defaults={pn: [v[0], v[1]] for pn, v in c.get('defaults', {}).items() if isinstance(v, (tuple, list))})
    return out


def confirm_decoded(H, ex, case, label):
    """C04 cases: the concrete file through the real Deserializer with the same (custom) database; the violation is confirmed
    when the real result differs from what the file says."""
    import json, hashlib
    from .. import common as C, gen
    m = ex.solver.model()
    data = bytes(m.eval(x.t, model_completion=True).as_long() for x in ex.input_bytes)
    dbj = json.dumps(db_json(case.get('classes') if isinstance(case.get('classes'), dict) else None))
    os.makedirs(C.REPLAYS, exist_ok=True)
    path = os.path.join(C.REPLAYS, '%s_%s.json' % (label.split('.')[0], hashlib.sha256(data + dbj.encode()).hexdigest()[:10]))
    hexarg = data.hex()
    if len(hexarg) > 60000:            # beyond what fits an argv entry: hand the file over by path
        with open(path + '.hex', 'w') as fh:
            fh.write(hexarg)
        hexarg = '@' + path + '.hex'
    rc, out, _ = C.run([gen.tool('replayer'), 'bytes', 'binary-decode-db', hexarg, dbj], timeout=60)
    ok, detail = False, 'native: ' + out.strip()[-200:]
    try:
        res = json.loads(out.strip().split('\n')[-1]) if 'PANIC' not in out else None
    except Exception:
        res = None
    want = None
    if 'panic' in label:
        ok = 'PANIC' in out
    elif 'reject' in label:
        ok = res is not None and 'err' in res
    elif res is not None and 'ok' in res and getattr(ex, 'c04_expect', None):
        E = ex.c04_expect
        insts = res['ok'][1:]
        want = []
        for i, v in enumerate(E['values']):
            if isinstance(v, tuple) and v[0] == 'ref':
                want.append({'Ref': (v[1] + 1) if 0 <= v[1] < E['n'] else None})
            elif isinstance(v, tuple) and v[0] == 'content':
                ty, x = v[1]
                want.append({'Content': None if ty == 0 else ({'Uri': [m.eval(x.t, model_completion=True).as_long()]} if ty == 1 else {'Object': (x + 1) if 0 <= x < E['n'] else None})})
            else:
                want.append(model_view(H, m, v))
        got = [dict(map(tuple, x['props'])).get(E['name'].decode()) for x in insts]
        ok = got != want
        detail = 'native: decoded %s, the file says %s' % (json.dumps(got)[:150], json.dumps(want)[:150])
    elif res is not None and 'ok' in res and getattr(ex, 'c04_tree', None):
        got = [[x['class'], x['parent']] for x in res['ok']]
        ok = got != ex.c04_tree
        want = ex.c04_tree
        detail = 'native: decoded forest %s, the file describes %s' % (got, want)
    json.dump(dict(property=label.split('.')[0], label=label, file_hex=data.hex() if len(data) < 30000 else hexarg, database=json.loads(dbj), expected=want, native=out[-600:], confirmed=ok,
                   how='tools/replayer bytes binary-decode-db <file_hex> <database json>'), open(path, 'w'), indent=1)
    return ok, path, detail


def confirm(H, ex, case, label):
    """native replay: the input bytes as a file = valid 32-byte header + this chunk, through rbx_binary::from_reader"""
    import json, hashlib
    from .. import common as C, gen
    if ex.solver.check() != z3.sat:
        return False, None, 'path condition unsatisfiable at report time'
    if (label.startswith('C04') and case['what'] in ('prop', 'tree', 'prop2')) or case['what'] == 'migr':
        return confirm_decoded(H, ex, case, label)
    if case['what'] == 'cchunk':
        # native: highly compressible real chunks (1 MiB of one byte, Zstandard and LZ4) through the real reader
        os.makedirs(C.REPLAYS, exist_ok=True)
        path = os.path.join(C.REPLAYS, 'C04_compressed_chunk.json')
        rc, out, _ = C.run([gen.tool('replayer'), 'bytes', 'binary-bigstring', '1048576'], timeout=300)
        ok = '"err"' in out or 'PANIC' in out or '"mismatch"' in out
        json.dump(dict(property='C04', label=label, native=out[-600:], confirmed=ok, how='tools/replayer bytes binary-bigstring 1048576'), open(path, 'w'), indent=1)
        return ok, path, 'native: ' + out.strip()[-200:]
    if case['what'] == 'dump' and case.get('comp', 'None') != 'None':
        # the compressor is a stub in the symbolic run; natively the finding is looked for through the public writer with real
        # compressors on a family of inputs (names a^k)
        os.makedirs(C.REPLAYS, exist_ok=True)
        path = os.path.join(C.REPLAYS, 'C03_compress_scan.json')
        rc, out, _ = C.run([gen.tool('replayer'), 'bytes', 'binary-compress-scan'], timeout=300)
        try:
            r = json.loads(out.strip().split('\n')[-1])
        except Exception:
            r = {}
        ok = bool(r.get('bad')) or 'PANIC' in out
        json.dump(dict(property='C03', label=label, native=out[-600:], confirmed=ok, how='tools/replayer bytes binary-compress-scan'), open(path, 'w'), indent=1)
        return ok, path, 'native: files that do not read back: %s' % (r.get('bad') or [])[:6]
    if case['what'] == 'dump':
        # the sink obligation is replayed through the public writer: a one-Folder DOM into a sink with room for r bytes, every r
        os.makedirs(C.REPLAYS, exist_ok=True)
        path = os.path.join(C.REPLAYS, 'C13_dump_sink.json')
        rc, out, _ = C.run([gen.tool('replayer'), 'bytes', 'binary-write-sink', '1000000'], timeout=60)
        try:
            total = json.loads(out.strip().split('\n')[-1])['total']
        except Exception:
            return False, None, 'replayer binary-write-sink failed: ' + out[-200:]
        bad = []
        for room in range(total):
            rc, out, _ = C.run([gen.tool('replayer'), 'bytes', 'binary-write-sink', str(room)], timeout=60)
            try:
                r = json.loads(out.strip().split('\n')[-1])
            except Exception:
                r = {'ok': None, 'raw': out[-100:]}
            if r.get('ok') or 'PANIC' in out:
                bad.append(r)
        json.dump(dict(property='C13', label=label, total=total, accepted_short=bad[:5], confirmed=bool(bad),
                       how='tools/replayer bytes binary-write-sink <room> for every room < total'), open(path, 'w'), indent=1)
        return bool(bad), path, 'native: to_writer into a sink with room for %s of %d bytes returns Ok' % ([b.get('room') for b in bad[:4]], total) if bad else 'native: every short sink is reported as an error'
    if getattr(ex.world, 'decomp_calls', 0):
        return False, None, 'counterexample runs through the decompressor contract stub (real compressed bytes are not constructed)'
    m = ex.solver.model()
    data = bytes(m.eval(x.t, model_completion=True).as_long() for x in ex.input_bytes)
    header = b'<roblox!\x89\xff\x0d\x0a\x1a\x0a\x00\x00' + (0).to_bytes(4, 'little') + (0).to_bytes(4, 'little') + bytes(8)
    blob = (header + data) if case['what'] == 'chunk' else data
    os.makedirs(C.REPLAYS, exist_ok=True)
    prop = label.split('.')[0]
    path = os.path.join(C.REPLAYS, '%s_chunk_%s.json' % (prop, hashlib.sha256(blob).hexdigest()[:10]))
    hexarg = blob.hex()
    if len(hexarg) > 60000:
        with open(path + '.hex', 'w') as fh:
            fh.write(hexarg)
        hexarg = '@' + path + '.hex'
    cmd = [gen.tool('replayer'), 'bytes', 'binary-decode', hexarg]
    if 'alloc' in label:
        rc, out, _ = C.run(['bash', '-c', 'ulimit -v 600000; exec %s' % ' '.join(cmd)], timeout=60)
        ok = rc != 0 and ('memory allocation' in out or rc in (134, -6))
        detail = 'native run under a 600 MB address-space limit: rc=%d %s' % (rc, out.strip()[-160:])
    else:
        rc, out, _ = C.run(cmd, timeout=60)
        ok = 'PANIC' in out if 'panic' in label else ('"ok"' in out if 'trunc' in label else ('"err"' in out))
        detail = 'native: ' + out.strip()[-200:]
    json.dump(dict(property=prop, label=label, file_hex=blob.hex(), chunk_hex=data.hex(), native=out[-400:], confirmed=ok,
                   how='tools/replayer bytes binary-decode <file_hex> (file = spec header + the chunk bytes)'), open(path, 'w'), indent=1)
    return ok, path, detail


# ----------------------------------------------------------------------------- PROP value columns per docs/binary.md
def rotl32(t):
    return z3.simplify(z3.RotateLeft(t, 1))


def f32col(vals):
    """Float32 column: Roblox float format (sign bit rotated to the LSB), big endian, interleaved"""
    return interleave([be_bytes(rotl32(v), 4) for v in vals])


def i32col(vals):
    return interleave([be_bytes(zigzag32(v), 4) for v in vals])


def u32col(vals):
    return interleave([be_bytes(v, 4) for v in vals])


def i64col(vals):
    return interleave([be_bytes(z3.simplify((v << 1) ^ (v >> 63)), 8) for v in vals])


def le(t, n):
    return [Sc(z3.simplify(z3.Extract(8 * i + 7, 8 * i, t)), 'u8') for i in range(n)]


PROP_TYPES = {
    # name: (type id, list of (field, kind)) -- one symbolic value per instance is a dict field -> z3 term
    'Bool': 0x02, 'Int32': 0x03, 'Float32': 0x04, 'Float64': 0x05, 'UDim': 0x06, 'UDim2': 0x07, 'Ray': 0x08, 'Faces': 0x09, 'Axes': 0x0a,
    'BrickColor': 0x0b, 'Color3': 0x0c, 'Vector2': 0x0d, 'Vector3': 0x0e, 'Enum': 0x12, 'Ref': 0x13, 'Vector3int16': 0x14, 'NumberRange': 0x17,
    'Content': 0x22, 'Font': 0x20, 'OptionalCFrame': 0x1e, 'UniqueId': 0x1f, 'SecurityCapabilities': 0x21, 'Rect': 0x18, 'PhysicalProperties': 0x19, 'Color3uint8': 0x1a, 'Int64': 0x1b, 'String': 0x01, 'NumberSequence': 0x15, 'ColorSequence': 0x16, 'CFrame': 0x10,
}
FIELDS = {
    'Content': [],
    'OptionalCFrame': [('px', 32), ('py', 32), ('pz', 32)] + [('m%d' % i, 32) for i in range(9)],
    'UniqueId': [('index', 32), ('time', 32), ('random', 64)],
    'SecurityCapabilities': [('v', 64)],
    'Font': [('fam', 8), ('face', 8)],
    'Bool': [('v', 'bool')], 'Int32': [('v', 32)], 'Float32': [('v', 32)], 'Float64': [('v', 64)], 'UDim': [('scale', 32), ('offset', 32)],
    'UDim2': [('xs', 32), ('xo', 32), ('ys', 32), ('yo', 32)], 'Ray': [('ox', 32), ('oy', 32), ('oz', 32), ('dx', 32), ('dy', 32), ('dz', 32)],
    'Faces': [('v', 8)], 'Axes': [('v', 8)], 'BrickColor': [('v', 32)], 'Color3': [('r', 32), ('g', 32), ('b', 32)], 'Vector2': [('x', 32), ('y', 32)],
    'Vector3': [('x', 32), ('y', 32), ('z', 32)], 'Enum': [('v', 32)], 'Ref': [('v', 32)], 'Vector3int16': [('x', 16), ('y', 16), ('z', 16)],
    'NumberRange': [('min', 32), ('max', 32)], 'Rect': [('minx', 32), ('miny', 32), ('maxx', 32), ('maxy', 32)],
    'PhysicalProperties': [('custom', 'bool'), ('density', 32), ('friction', 32), ('elasticity', 32), ('fw', 32), ('ew', 32)],
    'Color3uint8': [('r', 8), ('g', 8), ('b', 8)], 'Int64': [('v', 64)], 'String': [('b0', 8), ('b1', 8)],
    'NumberSequence': [('t', 32), ('v', 32), ('e', 32)], 'ColorSequence': [('t', 32), ('r', 32), ('g', 32), ('b', 32)],
    'CFrame': [('px', 32), ('py', 32), ('pz', 32)] + [('m%d' % i, 32) for i in range(9)],
}


def spec_prop_values(kind, vals, opts=None):
    """bytes of the Values part of a PROP chunk for `vals` (one dict per instance)"""
    opts = opts or {}
    col = lambda f: [v[f] for v in vals]
    if kind == 'Bool':
        return [Sc(z3.If(v['v'], z3.BitVecVal(1, 8), z3.BitVecVal(0, 8)), 'u8') for v in vals]
    if kind == 'Int32':
        return i32col(col('v'))
    if kind == 'Float32':
        return f32col(col('v'))
    if kind == 'Float64':
        return [b for v in vals for b in le(v['v'], 8)]
    if kind == 'UDim':
        return f32col(col('scale')) + i32col(col('offset'))
    if kind == 'UDim2':
        return f32col(col('xs')) + f32col(col('ys')) + i32col(col('xo')) + i32col(col('yo'))
    if kind == 'Ray':
        return [b for v in vals for f in ('ox', 'oy', 'oz', 'dx', 'dy', 'dz') for b in le(v[f], 4)]
    if kind in ('Faces', 'Axes'):
        return [Sc(v['v'], 'u8') for v in vals]
    if kind in ('BrickColor', 'Enum'):
        return u32col(col('v'))
    if kind == 'Color3':
        return f32col(col('r')) + f32col(col('g')) + f32col(col('b'))
    if kind == 'Vector2':
        return f32col(col('x')) + f32col(col('y'))
    if kind == 'Vector3':
        return f32col(col('x')) + f32col(col('y')) + f32col(col('z'))
    if kind == 'Ref':
        return referent_array(col('v'))
    if kind == 'Vector3int16':
        return [b for v in vals for f in ('x', 'y', 'z') for b in le(v[f], 2)]
    if kind == 'NumberRange':
        return [b for v in vals for f in ('min', 'max') for b in le(v[f], 4)]
    if kind == 'Rect':
        return f32col(col('minx')) + f32col(col('miny')) + f32col(col('maxx')) + f32col(col('maxy'))
    if kind == 'PhysicalProperties':
        out = []
        for v, custom in zip(vals, opts['custom']):
            out += B([1 if custom else 0])
            if custom:
                for f in ('density', 'friction', 'elasticity', 'fw', 'ew'):
                    out += le(v[f], 4)
        return out
    if kind == 'Color3uint8':
        return [Sc(v['r'], 'u8') for v in vals] + [Sc(v['g'], 'u8') for v in vals] + [Sc(v['b'], 'u8') for v in vals]
    if kind == 'Int64':
        return i64col(col('v'))
    if kind == 'String':
        out = []
        for v, n in zip(vals, opts['len']):
            out += B(u32le(n)) + [Sc(v['b%d' % i], 'u8') for i in range(n)]
        return out
    if kind == 'NumberSequence':
        out = []
        for v, n in zip(vals, opts['len']):
            out += B(u32le(n))
            for _ in range(n):
                out += le(v['t'], 4) + le(v['v'], 4) + le(v['e'], 4)
        return out
    if kind == 'ColorSequence':
        out = []
        for v, n in zip(vals, opts['len']):
            out += B(u32le(n))
            for _ in range(n):
                out += le(v['t'], 4) + le(v['r'], 4) + le(v['g'], 4) + le(v['b'], 4) + B(bytes(4))
        return out
    if kind == 'OptionalCFrame':
        # 0x10 marker, the CFrame array (general matrices for present values; the identity id 0x02 and position 0 for absent ones, as
        # the document's example shows), 0x02 marker, one bool per value
        out = B([0x10])
        zero = z3.BitVecVal(0, 32)
        for v, pres in zip(vals, opts['present']):
            if pres:
                out += B([0])
                for i in range(9):
                    out += le(v['m%d' % i], 4)
            else:
                out += B([0x02])
        pos = lambda f: [(v[f] if pres else zero) for v, pres in zip(vals, opts['present'])]
        out += f32col(pos('px')) + f32col(pos('py')) + f32col(pos('pz'))
        return out + B([0x02]) + B([1 if pres else 0 for pres in opts['present']])
    if kind == 'Font':
        # family (String), weight u16 LE, style u8, cached face id (String, possibly empty)
        out = []
        for i, v in enumerate(vals):
            out += B(u32le(1)) + [Sc(v['fam'], 'u8')] + B(list((opts['weight'][i]).to_bytes(2, 'little'))) + B([opts['style'][i]])
            out += (B(u32le(1)) + [Sc(v['face'], 'u8')]) if opts['face'][i] else B(u32le(0))
        return out
    if kind == 'CFrame':
        out = []
        for v, rid in zip(vals, opts['rot']):
            out += B([rid])
            if rid == 0:
                for i in range(9):
                    out += le(v['m%d' % i], 4)
        return out + f32col(col('px')) + f32col(col('py')) + f32col(col('pz'))
    raise Unsupported('spec encoder for ' + kind)


# ----------------------------------------------------------------------------- C04 M9: PROP arms against the spec encoder
def build_value(H, spec):
    k = spec[0]
    if k == 'Sc':
        return Sc(spec[1], spec[2])
    if k == 'Struct':
        return H.S(spec[1], **{f: build_value(H, s) for f, s in spec[2].items()})
    if k == 'Enum':
        return Enum(spec[1], spec[2], [build_value(H, s) for s in spec[3]])
    if k == 'Vec':
        return VecM([build_value(H, s) for s in spec[1]])
    if k == 'Raw':
        return spec[1]
    raise Unsupported('value spec ' + k)


def expected_variant(H, kind, v, opts, i):
    f = lambda t: ('Sc', t, 'f32')
    vec3 = lambda a, b, c: ('Struct', 'Vector3', dict(x=f(a), y=f(b), z=f(c)))
    vec2 = lambda a, b: ('Struct', 'Vector2', dict(x=f(a), y=f(b)))
    udim = lambda s, o: ('Struct', 'UDim', dict(scale=f(s), offset=('Sc', o, 'i32')))
    V = lambda variant, payload: ('Enum', 'Variant', variant, [payload])
    if kind == 'Bool':
        return V('Bool', ('Sc', v['v'], 'bool'))
    if kind == 'Int32':
        if opts.get('declared') == 'Int64':
            return V('Int64', ('Sc', z3.SignExt(32, v['v']), 'i64'))
        return V('Int32', ('Sc', v['v'], 'i32'))
    if kind == 'Float32':
        if opts.get('declared') == 'Float64':
            return V('Float64', ('Sc', z3.fpToIEEEBV(z3.fpToFP(z3.RNE(), z3.fpBVToFP(v['v'], z3.Float32()), z3.Float64())), 'f64'))
        return V('Float32', f(v['v']))
    if kind == 'Float64':
        return V('Float64', ('Sc', v['v'], 'f64'))
    if kind == 'Int64':
        return V('Int64', ('Sc', v['v'], 'i64'))
    if kind == 'UDim':
        return V('UDim', udim(v['scale'], v['offset']))
    if kind == 'UDim2':
        return V('UDim2', ('Struct', 'UDim2', dict(x=udim(v['xs'], v['xo']), y=udim(v['ys'], v['yo']))))
    if kind == 'Ray':
        return V('Ray', ('Struct', 'Ray', dict(origin=vec3(v['ox'], v['oy'], v['oz']), direction=vec3(v['dx'], v['dy'], v['dz']))))
    if kind == 'BrickColor':
        names = {v_: k_ for k_, v_ in H.prog.enums['BrickColor'].items()}
        return V('BrickColor', ('Enum', 'BrickColor', names[opts['numbers'][i]], []))
    if kind in ('Faces', 'Axes'):
        inner = 'FaceFlags' if kind == 'Faces' else 'AxisFlags'
        return V(kind, ('Struct', kind, dict(flags=('Struct', inner, dict(bits=('Sc', v['v'], 'u8'))))))
    if kind == 'Color3':
        return V('Color3', ('Struct', 'Color3', dict(r=f(v['r']), g=f(v['g']), b=f(v['b']))))
    if kind == 'Vector2':
        return V('Vector2', vec2(v['x'], v['y']))
    if kind == 'Vector3':
        return V('Vector3', vec3(v['x'], v['y'], v['z']))
    if kind == 'Enum':
        return V('Enum', ('Struct', 'Enum', dict(value=('Sc', v['v'], 'u32'))))
    if kind == 'Vector3int16':
        return V('Vector3int16', ('Struct', 'Vector3int16', dict(x=('Sc', v['x'], 'i16'), y=('Sc', v['y'], 'i16'), z=('Sc', v['z'], 'i16'))))
    if kind == 'NumberRange':
        return V('NumberRange', ('Struct', 'NumberRange', dict(min=f(v['min']), max=f(v['max']))))
    if kind == 'Rect':
        return V('Rect', ('Struct', 'Rect', dict(min=vec2(v['minx'], v['miny']), max=vec2(v['maxx'], v['maxy']))))
    if kind == 'Color3uint8':
        return V('Color3uint8', ('Struct', 'Color3uint8', dict(r=('Sc', v['r'], 'u8'), g=('Sc', v['g'], 'u8'), b=('Sc', v['b'], 'u8'))))
    if kind == 'PhysicalProperties':
        if not opts['custom'][i]:
            return V('PhysicalProperties', ('Enum', 'PhysicalProperties', 'Default', []))
        c = ('Struct', 'CustomPhysicalProperties', dict(density=f(v['density']), friction=f(v['friction']), elasticity=f(v['elasticity']), friction_weight=f(v['fw']), elasticity_weight=f(v['ew'])))
        return V('PhysicalProperties', ('Enum', 'PhysicalProperties', 'Custom', [c]))
    if kind == 'String':
        n = opts['len'][i]
        return V('BinaryString', ('Struct', 'BinaryString', dict(buffer=('Vec', [('Sc', v['b%d' % j], 'u8') for j in range(n)]))))
    if kind == 'NumberSequence':
        n = opts['len'][i]
        kp = ('Struct', 'NumberSequenceKeypoint', dict(time=f(v['t']), value=f(v['v']), envelope=f(v['e'])))
        return V('NumberSequence', ('Struct', 'NumberSequence', dict(keypoints=('Vec', [kp] * n))))
    if kind == 'ColorSequence':
        n = opts['len'][i]
        kp = ('Struct', 'ColorSequenceKeypoint', dict(time=f(v['t']), color=('Struct', 'Color3', dict(r=f(v['r']), g=f(v['g']), b=f(v['b'])))))
        return V('ColorSequence', ('Struct', 'ColorSequence', dict(keypoints=('Vec', [kp] * n))))
    if kind == 'OptionalCFrame':
        if not opts['present'][i]:
            return V('OptionalCFrame', ('Enum', 'Option', 'None', []))
        rows = [vec3(v['m%d' % (3 * r)], v['m%d' % (3 * r + 1)], v['m%d' % (3 * r + 2)]) for r in range(3)]
        cf = ('Struct', 'CFrame', dict(position=vec3(v['px'], v['py'], v['pz']), orientation=('Struct', 'Matrix3', dict(x=rows[0], y=rows[1], z=rows[2]))))
        return V('OptionalCFrame', ('Enum', 'Option', 'Some', [cf]))
    if kind == 'UniqueId':
        return V('UniqueId', ('Struct', 'UniqueId', dict(index=('Sc', v['index'], 'u32'), time=('Sc', v['time'], 'u32'), random=('Sc', v['random'], 'i64'))))
    if kind == 'SecurityCapabilities':
        return V('SecurityCapabilities', ('Struct', 'SecurityCapabilities', dict(value=('Sc', v['v'], 'u64'))))
    if kind == 'Font':
        wnames = ['Thin', 'ExtraLight', 'Light', 'Regular', 'Medium', 'SemiBold', 'Bold', 'ExtraBold', 'Heavy']
        face = ('Enum', 'Option', 'Some', [('Raw', StrV([Sc(v['face'], 'u8')], None))]) if opts['face'][i] else ('Enum', 'Option', 'None', [])
        return V('Font', ('Struct', 'Font', dict(family=('Raw', StrV([Sc(v['fam'], 'u8')], None)), weight=('Enum', 'FontWeight', wnames[opts['weight'][i] // 100 - 1], []),
                                                 style=('Enum', 'FontStyle', ['Normal', 'Italic'][opts['style'][i]], []), cached_face_id=face)))
    if kind == 'CFrame':
        rid = opts['rot'][i]
        pos = vec3(v['px'], v['py'], v['pz'])
        if rid == 0:
            rows = [vec3(v['m%d' % (3 * r)], v['m%d' % (3 * r + 1)], v['m%d' % (3 * r + 2)]) for r in range(3)]
            mat = ('Struct', 'Matrix3', dict(x=rows[0], y=rows[1], z=rows[2]))
        else:
            mat = ('Raw', opts['rot_matrix'][i])
        return V('CFrame', ('Struct', 'CFrame', dict(position=pos, orientation=mat)))
    raise Unsupported('expected value for ' + kind)


def prop_case(H, ex, case):
    """n instances of unknown class "A", one PROP chunk for property "P" whose Values are produced by the spec encoder from
    symbolic values; the decoded instances must carry exactly those values (bit for bit) under that name."""
    from . import attrcheck
    from .domcheck import DomHarness, Atoms
    kind, n = case['kind'], case['n']
    opts = dict(case.get('opts', {}))
    vals = []
    for i in range(n):
        v = {}
        for fld, w in (FIELDS[kind] if kind != 'String' else [('b%d' % j, 8) for j in range(max(opts['len']))]):
            v[fld] = z3.Bool('p%d_%s' % (i, fld)) if w == 'bool' else z3.BitVec('p%d_%s' % (i, fld), w)
        vals.append(v)
    if kind == 'Bool':
        pass
    if kind in ('Faces', 'Axes'):
        for v in vals:
            ex.assume(z3.ULT(v['v'], 64 if kind == 'Faces' else 8))
    if kind == 'BrickColor':
        for v, num in zip(vals, opts['numbers']):
            ex.assume(v['v'] == num)
    if kind == 'Font':
        for v in vals:
            for fld in ('fam', 'face'):
                ex.assume(z3.And(z3.UGE(v[fld], 0x20), z3.ULT(v[fld], 0x7f)))
    ref_targets = None
    if kind == 'Ref':
        # each value names instance t, is the null referent (-1) or names no instance of the file (docs: "-1 ... null"; anything
        # that is not a referent of the file can only load as null)
        ref_targets = []
        for v in vals:
            t = ex.nondet(n + 2, 'Ref value target') - 1
            if t == n:
                ex.assume(z3.And(v['v'] != -1, z3.Or(v['v'] < 0, v['v'] >= n)))
            else:
                ex.assume(v['v'] == t)
            ref_targets.append(t)
    content = None
    if kind == 'Content':
        # per instance: source type 0 (none), 1 (uri of one symbolic ASCII byte), 2 (object: instance t or null)
        content = []
        for i, ty in enumerate(opts['types']):
            if ty == 1:
                b = sym_int('uri%d' % i, 'u8')
                ex.assume(z3.And(b.t >= 0x20, b.t < 0x7f))
                content.append((1, b))
            elif ty == 2:
                content.append((2, ex.nondet(n + 1, 'Content object target') - 1))
            else:
                content.append((0, None))
    if kind == 'CFrame':
        fn = H.prog.resolve('Matrix3::from_basic_rotation_id')
        opts['rot_matrix'] = []
        for rid in opts['rot']:
            if rid:
                m = ex.force(ex.call_fn(fn, [mk_int(rid, 'u8')]))
                opts['rot_matrix'].append(m.f[0])
            else:
                opts['rot_matrix'].append(None)
    refs = [z3.BitVecVal(i, 32) for i in range(n)]
    if content is not None:
        uris = [c[1] for c in content if c[0] == 1]
        objs = [z3.BitVecVal(c[1] & 0xffffffff, 32) for c in content if c[0] == 2]
        values = i32col([z3.BitVecVal(c[0], 32) for c in content]) + B(u32le(len(uris)))
        for u in uris:
            values += B(u32le(1)) + [u]
        values += B(u32le(len(objs))) + referent_array(objs) + B(u32le(0))
    else:
        values = spec_prop_values(kind, vals, opts)
    # the class id is arbitrary (docs: "an arbitrarily-chosen ID"), the same in the INST and PROP chunks
    cid = z3.BitVec('cid', 32)
    ex.assume(z3.And(cid >= 0, cid < (1 << 30)))
    body = sym_u32le(cid) + spec_string(b'P') + B([PROP_TYPES[kind]]) + values
    props = [chunk(b'PROP', body)]
    if case.get('extra'):
        # docs/binary.md PROP: a chunk that ends after the name, or whose type id is not one the reader knows, is skipped
        xbody = sym_u32le(cid) + spec_string(b'Q')
        if case['extra'] == 'unknown_type':
            t = sym_int('xtype', 'u8')
            for tid in sorted(set(H.prog.enums['Type'].values())):
                ex.assume(t.t != tid)
            xbody += [t] + [sym_int('xjunk%d' % i, 'u8') for i in range(case.get('junk', 3))]
        x = chunk(b'PROP', xbody)
        props = [x] + props if ex.nondet(2, 'skipped PROP chunk before / after') == 0 else props + [x]
    data = file_header(1, n) + inst_chunk(cid, case.get('cls', 'A').encode() if isinstance(case.get('cls'), str) else b'A', refs) + [b for c_ in props for b in c_] + prnt_chunk(refs, [z3.BitVecVal(0xffffffff, 32)] * n) + END
    ex.input_bytes = data
    ex.alloc_limit = len(data) + 1
    de = H.deserializer(H.database(case.get('classes')))
    try:
        res = ex.force(ex.call_fn(H.F_DESER, [Ptr(Cell(de)), Ptr(Cell(iomodels.CursorV(data)))]))
    except PanicPath as p:
        raise Violation('C04.panic[prop_%s:%s]: deserialize panics on a spec-conformant %s column: %s at %s' % (kind, str(getattr(p, 'where', '?')).replace(' ', '_'), kind, p.msg, p.site))
    want_name = case.get('canonical_name', b'P')
    # what the file says, kept for the native confirmation of any violation below
    ex.c04_expect = dict(name=want_name, n=n, values=[('content', content[i]) if content is not None else ('ref', ref_targets[i]) if ref_targets is not None else
                                                      build_value(H, case['expect'](H, kind, vals[i], opts, i) if 'expect' in case else expected_variant(H, kind, vals[i], opts, i))
                                                      for i in range(n)])
    if res.variant != 'Ok':
        raise Violation('C04.reject[prop_%s%s]: a spec-conformant file with a %s property column%s is rejected' % (kind, ('_as_' + opts['declared']) if opts.get('declared') else '', kind, (' for a property declared ' + opts['declared']) if opts.get('declared') else ''))
    dom = res.f[0]
    DH = DomHarness(H.prog)
    A = Atoms(ex)
    d = DH.snapshot(ex, A, dom)
    kids = d.nodes[d.root]['children']
    if len(kids) != n:
        raise Violation('C04.tree: %d instances decoded, %d described' % (len(kids), n))
    for i, k in enumerate(kids):
        props = {pk.concrete_bytes(): pv for pk, pv in d.nodes[k]['props']}
        if want_name not in props:
            raise Violation('C04.prop[prop_%s]: instance %d has properties %s, the file gives it %r' % (kind, i, sorted(props), want_name))
        if len(props) != 1:
            raise Violation('C04.prop[prop_%s]: instance %d has extra properties %s' % (kind, i, sorted(props)))
        got = props[want_name]
        if content is not None:
            ty, x = content[i]
            if got.variant != 'Content':
                raise Violation('C04.prop[prop_Content]: instance %d decodes as Variant::%s, expected Variant::Content' % (i, got.variant))
            cv = got.f[0].f[0]
            ex.force(cv)
            want_v = {0: 'None', 1: 'Uri', 2: 'Object'}[ty]
            if cv.variant != want_v:
                raise Violation('C04.prop[prop_Content]: Content of instance %d is %s, the file says %s' % (i, cv.variant, want_v))
            if ty == 1:
                d_ = deref(cv.f[0]).data
                if len(d_) != 1 or ex.sat(d_[0].t != x.t):
                    raise Violation('C04.prop[prop_Content]: URI of instance %d differs from the one stored for it (URIs are listed in instance order)' % i)
            if ty == 2:
                want = kids[x] if 0 <= x < n else 'none'
                if A.canon(cv.f[0]) != want:
                    raise Violation('C04.prop[prop_Content]: object Content of instance %d points at %s, the file says %s (object referents are listed in instance order)' % (i, A.canon(cv.f[0]), 'instance %d' % x if want != 'none' else 'null'))
            continue
        if ref_targets is not None:
            if got.variant != 'Ref':
                raise Violation('C04.prop[prop_Ref]: instance %d decodes as Variant::%s, expected Variant::Ref' % (i, got.variant))
            t = ref_targets[i]
            want = kids[t] if 0 <= t < n else 'none'
            if A.canon(got.f[0]) != want:
                raise Violation('C04.prop[prop_Ref]: Ref value of instance %d points at %s, the file says %s' % (i, A.canon(got.f[0]), 'instance %d' % t if want != 'none' else 'null'))
            continue
        exp = build_value(H, case['expect'](H, kind, vals[i], opts, i) if 'expect' in case else expected_variant(H, kind, vals[i], opts, i))
        if got.variant != exp.variant:
            raise Violation('C04.prop[prop_%s]: instance %d decodes as Variant::%s, expected Variant::%s' % (kind, i, got.variant, exp.variant))
        if ex.sat(z3.Not(attrcheck.bits_eq(got, exp))):
            ex.assume(z3.Not(attrcheck.bits_eq(got, exp)))          # the model replayed natively is a witness
            raise Violation('C04.prop[prop_%s]: value of instance %d differs from the value the spec encoder wrote' % (kind, i))
    return 'ok'


def migr_case(H, ex, case):
    """C15 (binary read path): a spec file for n instances of the known class K carrying the migrating legacy Bool column
    IgnoreGuiInset and, optionally, the explicit new Enum column ScreenInsets, in either chunk order.  The decoded instances
    must carry only ScreenInsets: the explicit value when given, else the migrated legacy value (true -> 1, false -> 2)."""
    from . import attrcheck
    from .domcheck import DomHarness, Atoms
    n, explicit = case['n'], case['explicit']
    legacy = [z3.Bool('leg%d' % i) for i in range(n)]
    new = [z3.BitVec('new%d' % i, 32) for i in range(n)]
    refs = [z3.BitVecVal(i, 32) for i in range(n)]
    c_leg = chunk(b'PROP', B(u32le(0)) + spec_string(b'IgnoreGuiInset') + B([PROP_TYPES['Bool']]) + spec_prop_values('Bool', [{'v': b} for b in legacy]))
    c_new = chunk(b'PROP', B(u32le(0)) + spec_string(b'ScreenInsets') + B([PROP_TYPES['Enum']]) + spec_prop_values('Enum', [{'v': x} for x in new]))
    order = [c_leg]
    if explicit:
        order = [c_leg, c_new] if ex.nondet(2, 'legacy column before / after the explicit one') == 0 else [c_new, c_leg]
    data = file_header(1, n) + inst_chunk(z3.BitVecVal(0, 32), b'K', refs) + [b for c_ in order for b in c_] + prnt_chunk(refs, [z3.BitVecVal(0xffffffff, 32)] * n) + END
    ex.input_bytes = data
    ex.alloc_limit = len(data) + 1
    de = H.deserializer(H.database(case['classes']))
    try:
        res = ex.force(ex.call_fn(H.F_DESER, [Ptr(Cell(de)), Ptr(Cell(iomodels.CursorV(data)))]))
    except PanicPath as p:
        raise Violation('C15.panic[migr_read:%s]: deserialize panics on a file with a migrating legacy column: %s at %s' % (str(getattr(p, 'where', '?')).replace(' ', '_'), p.msg, p.site))
    want_vals = [new[i] if explicit else z3.If(legacy[i], z3.BitVecVal(1, 32), z3.BitVecVal(2, 32)) for i in range(n)]
    ex.c04_expect = dict(name=b'ScreenInsets', n=n, values=[build_value(H, expected_variant(H, 'Enum', {'v': w}, {}, i)) for i, w in enumerate(want_vals)])
    if res.variant != 'Ok':
        raise Violation('C15.reject[migr_read]: a file with a migrating legacy column is rejected')
    DH = DomHarness(H.prog)
    A = Atoms(ex)
    d = DH.snapshot(ex, A, res.f[0])
    kids = d.nodes[d.root]['children']
    if len(kids) != n:
        raise Violation('C15.tree: %d instances decoded, %d described' % (len(kids), n))
    for i, k in enumerate(kids):
        props = {pk.concrete_bytes(): pv for pk, pv in d.nodes[k]['props']}
        if set(props) != {b'ScreenInsets'}:
            raise Violation('C15.migr[names]: instance %d decodes with properties %s; only the new name ScreenInsets may appear' % (i, sorted(props)))
        got, exp = props[b'ScreenInsets'], ex.c04_expect['values'][i]
        if got.variant != exp.variant:
            raise Violation('C15.migr[type]: ScreenInsets of instance %d is Variant::%s' % (i, got.variant))
        if ex.sat(z3.Not(attrcheck.bits_eq(got, exp))):
            ex.assume(z3.Not(attrcheck.bits_eq(got, exp)))
            raise Violation('C15.migr[%s]: ScreenInsets of instance %d is not %s' % ('explicit_wins' if explicit else 'value', i, 'the explicit value' if explicit else 'the migrated legacy value'))
    return 'ok'


def prop2_case(H, ex, case):
    """two classes with arbitrary distinct class ids, INST chunks and PROP chunks each in either order: every PROP column lands on
    the instances of the class whose id it names"""
    from . import attrcheck
    from .domcheck import DomHarness, Atoms
    ca, cb = z3.BitVec('cidA', 32), z3.BitVec('cidB', 32)
    ex.assume(z3.And(ca >= 0, ca < (1 << 30), cb >= 0, cb < (1 << 30), ca != cb))
    va, vb = z3.BitVec('va', 32), z3.BitVec('vb', 32)
    r0, r1 = z3.BitVecVal(0, 32), z3.BitVecVal(1, 32)
    insts = [inst_chunk(ca, b'A', [r0]), inst_chunk(cb, b'B', [r1])]
    props = [chunk(b'PROP', sym_u32le(ca) + spec_string(b'P') + B([PROP_TYPES['Int32']]) + spec_prop_values('Int32', [{'v': va}])),
             chunk(b'PROP', sym_u32le(cb) + spec_string(b'P') + B([PROP_TYPES['Int32']]) + spec_prop_values('Int32', [{'v': vb}]))]
    if ex.nondet(2, 'INST chunk order') == 1:
        insts.reverse()
    if ex.nondet(2, 'PROP chunk order') == 1:
        props.reverse()
    data = file_header(2, 2) + [b for c_ in insts + props for b in c_] + prnt_chunk([r0, r1], [z3.BitVecVal(0xffffffff, 32)] * 2) + END
    ex.input_bytes = data
    ex.alloc_limit = len(data) + 1
    de = H.deserializer(H.database(None))
    try:
        res = ex.force(ex.call_fn(H.F_DESER, [Ptr(Cell(de)), Ptr(Cell(iomodels.CursorV(data)))]))
    except PanicPath as p:
        raise Violation('C04.panic[prop2]: deserialize panics on a two-class file: %s at %s' % (p.msg, p.site))
    ex.c04_expect = dict(name=b'P', n=2, values=[build_value(H, expected_variant(H, 'Int32', {'v': va}, {}, 0)), build_value(H, expected_variant(H, 'Int32', {'v': vb}, {}, 1))])
    if res.variant != 'Ok':
        raise Violation('C04.reject[prop2_class_ids]: a two-class file with arbitrary class ids is rejected')
    DH = DomHarness(H.prog)
    A = Atoms(ex)
    d = DH.snapshot(ex, A, res.f[0])
    kids = d.nodes[d.root]['children']
    if len(kids) != 2:
        raise Violation('C04.tree: %d instances decoded, 2 described' % len(kids))
    for i, (k, cls) in enumerate(zip(kids, (b'A', b'B'))):
        node = d.nodes[k]
        if node['cls'].concrete_bytes() != cls:
            raise Violation('C04.prop[prop2_class]: instance %d decodes with class %r' % (i, node['cls'].concrete_bytes()))
        pr = {pk.concrete_bytes(): pv for pk, pv in node['props']}
        if set(pr) != {b'P'}:
            raise Violation('C04.prop[prop2_names]: instance %d has properties %s' % (i, sorted(pr)))
        if ex.sat(z3.Not(attrcheck.bits_eq(pr[b'P'], ex.c04_expect['values'][i]))):
            ex.assume(z3.Not(attrcheck.bits_eq(pr[b'P'], ex.c04_expect['values'][i])))
            raise Violation('C04.prop[prop2_value]: the value of class %s lands on another class (class ids / chunk order)' % cls.decode())
    return 'ok'
