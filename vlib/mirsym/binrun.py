"""Parallel driver for the rbx_binary byte-level obligations (C13 / C04 / C03)."""
import os, re, time, multiprocessing as mp
from .. import common as C
from . import mirdump, bincheck
from .program import Program
from .interp import Stats

CRATES = ['rbx_types', 'rbx_dom_weak', 'rbx_reflection', 'rbx_binary']
_PROGS = {}
_MODULE = bincheck
_CRATES = CRATES


def _load():
    key = tuple(_CRATES)
    if key not in _PROGS:
        _PROGS[key] = Program(list(_CRATES), mirdump.MIR_DIR)
    return _PROGS[key]


def refresh_mir():
    for c in CRATES:
        mirdump.dump(c)
    _PROGS.clear()          # anything loaded before (e.g. for boundary-constant mining) is stale now


def _work(job):
    case, budget = job
    st = Stats()
    t = time.time()
    try:
        r = _MODULE.explore(_load(), case, st, budget_s=budget)
    except Exception as e:
        import traceback
        r = dict(paths=0, ok=0, err=0, infeasible=0, violations=[], unsupported='encoder exception: %r %s' % (e, traceback.format_exc()[-500:]))
    r.update(case=case, queries=st.queries, solver_s=st.solver_s, wall_s=time.time() - t, models=dict(st.models_used), fns=dict(st.fns_interpreted))
    return r


def run(groups, prop_prefixes, jobs=None, module=None, crates=None):
    """module: the checker (explore(prog, case, stats, budget_s)); default bincheck over the four crates"""
    global _MODULE, _CRATES
    _MODULE, _CRATES = module or bincheck, crates or CRATES
    jobs = jobs or min(14, os.cpu_count() or 4)
    _load()
    all_jobs = [(g['id'], (c, g.get('budget', 300))) for g in groups for c in g['cases']]
    with mp.get_context('fork').Pool(jobs) as pool:
        results = pool.map(_work, [j for _, j in all_jobs], chunksize=1)
    by = {}
    for (gid, _), r in zip(all_jobs, results):
        by.setdefault(gid, []).append(r)
    obs = []
    for g in groups:
        rs = by.get(g['id'], [])
        ob = C.Obligation(g['id'], g['desc'], 'M', g['bounds'])
        ob.paths = sum(r['paths'] for r in rs)
        ob.queries = sum(r['queries'] for r in rs)
        ob.solver_s = sum(r['solver_s'] for r in rs)
        ob.wall_s = sum(r['wall_s'] for r in rs)
        fns, models = {}, {}
        for r in rs:
            for k, v in r['fns'].items():
                fns[k] = fns.get(k, 0) + v
            for k, v in r['models'].items():
                models[k] = models.get(k, 0) + v
        ob.functions, ob.stubs = sorted(fns), sorted(models)
        ob.extra.update(cases=len(rs), ok_paths=sum(r['ok'] for r in rs), err_paths=sum(r['err'] for r in rs), infeasible=sum(r['infeasible'] for r in rs))
        ob.samples = [dict(case={k: v for k, v in r['case'].items() if k != 'build'}, paths=r['paths'], queries=r['queries']) for r in rs[:4]]
        uns = [r for r in rs if r['unsupported']]
        seen = set()
        for r in rs:
            for v in r['violations']:
                if not any(v['label'].startswith(p) for p in prop_prefixes):
                    continue
                m = re.search(r'\[([\w:\.<>]+)\]', v['label'])
                key = m.group(1) if m else '%s:%s' % (v['label'].split(':')[0], r['case'].get('gen') or r['case'].get('what'))
                if key in seen:
                    continue
                seen.add(key)
                ob.violations.append(dict(key=key, what=v['label'][:300] + ' :: ' + str(v.get('replay_detail', '')).replace('\n', ' ')[:300], replay=v.get('replay'), confirmed=bool(v.get('confirmed'))))
        if uns:
            ob.status, ob.detail = C.INCONCLUSIVE, uns[0]['unsupported'][:400] + ' (case %s)' % ({k: v for k, v in uns[0]['case'].items() if k != 'build'},)
        elif ob.violations:
            ob.status, ob.detail = C.FAIL, ob.violations[0]['what'][:300]
        elif ob.paths == 0:
            ob.status, ob.detail = C.INCONCLUSIVE, 'vacuous: no completed path'
        else:
            ob.status, ob.vacuity = C.PASS, True
        obs.append(ob)
    return obs
