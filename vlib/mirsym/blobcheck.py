"""C17 M23: MaterialColors / Tags blob conversions (rbx_types) decided on the MIR of encode / decode.

MaterialColors (docs/binary.md "MaterialColors" blob: 6 reserved bytes then 21 RGB triples in material order):
  dec   decode(b) for every 69-byte b: Ok; get_color(material i) = bytes 6+3i..; encode(decode(b)) = 000000 ++ b[6..]
  enc   a map with k set materials (chosen by nondet among the 21, colours symbolic): encode() is 69 bytes, slot i holds the
        set colour or the default of material i; decode(encode(m)).get_color(x) = m.get_color(x) for every material
  len   decode of any other length is an error (never a panic)
"""
import time, os, json
import z3
from .values import *
from .interp import Exec, Stats
from .rbx_models import RbxModels, World
from .models import deref
from . import iomodels


def make_models(prog):
    M = RbxModels()
    iomodels.register(M)
    M.register_bitflags(prog)
    return M


def materials(prog):
    e = prog.enums['TerrainMaterials']
    return [n for n, _ in sorted(e.items(), key=lambda kv: kv[1])]


def defaults_from_source():
    import re
    from .. import common as C
    src = open(os.path.join(C.REPO, 'rbx_types/src/material_colors.rs')).read()
    body = src[src.index('material_colors! {'):]
    body = body[:body.index('\n}')]
    return [(m.group(1), [int(m.group(i)) for i in (2, 3, 4)]) for m in re.finditer(r'(\w+)\s*=>\s*\[(\d+),\s*(\d+),\s*(\d+)\]', body)]


def color(H, prog, r, g, b):
    fields = prog.structs['Color3uint8']
    d = dict(r=r, g=g, b=b)
    return Struct([d[f] for f in fields], 'Color3uint8')


def tags_case(prog, ex, case):
    """Tags blob (docs: tag names separated by NUL): decode splits at NUL, drops empty names, needs UTF-8; encode joins with NUL"""
    what = case['what']
    F_ENC, F_DEC = prog.resolve('Tags::encode'), prog.resolve('Tags::decode')
    if None in (F_ENC, F_DEC):
        raise Unsupported('Tags::{encode,decode} not found in MIR')

    def decode(bs):
        try:
            return ex.force(ex.call_fn(F_DEC, [SliceRef(Ptr(Cell(ArrayV(list(bs)))), 0, len(bs))]))
        except PanicPath as p:
            raise Violation('C17.blob[tags_decode_panic]: Tags::decode panics on %d bytes: %s' % (len(bs), p.msg))
    if what == 'tags_dec':
        n = case['len']
        bs = [sym_int('t%d' % i, 'u8') for i in range(n)]
        ex.blob_in = bs
        # reference: segmentation by nondet-free case split driven by the solver (each byte zero / non-zero)
        zero = [ex.branch(b.t == 0) for b in bs]
        segs, cur = [], []
        for b, z in zip(bs, zero):
            if z:
                if cur:
                    segs.append(cur)
                cur = []
            else:
                cur.append(b)
        if cur:
            segs.append(cur)
        valid = z3.And([iomodels.utf8_valid(sg) for sg in segs]) if segs else z3.BoolVal(True)
        res = decode(bs)
        if res.variant == 'Ok':
            if ex.sat(z3.Not(valid)):
                raise Violation('C17.blob[tags_utf8]: Tags::decode accepts a name that is not UTF-8')
            got = res.f[0].f[0].items
            if len(got) != len(segs):
                raise Violation('C17.blob[tags_split]: %d tags decoded from a blob with %d non-empty NUL-separated names' % (len(got), len(segs)))
            for g, sg in zip(got, segs):
                gd = deref(g).data
                if len(gd) != len(sg) or ex.sat(z3.Or([x.t != y.t for x, y in zip(gd, sg)])):
                    raise Violation('C17.blob[tags_split]: a decoded tag differs from the bytes between the separators')
            out = ex.force(ex.call_fn(F_ENC, [Ptr(Cell(res.f[0]))]))
            od = out.items if isinstance(out, VecM) else out.data
            want = []
            for i, sg in enumerate(segs):
                if i:
                    want.append(mk_int(0, 'u8'))
                want.extend(sg)
            if len(od) != len(want) or ex.sat(z3.Or([x.t != y.t for x, y in zip(od, want)])):
                raise Violation('C17.blob[tags_reencode]: encode(decode(b)) is not the names of b joined by NUL')
            return 'ok'
        if ex.sat(valid):
            ex.assume(valid)
            raise Violation('C17.blob[tags_reject]: Tags::decode rejects a blob whose names are all valid UTF-8')
        return 'err'
    if what == 'tags_enc':
        lens = case['lens']
        names = [[sym_int('n%d_%d' % (i, j), 'u8') for j in range(l)] for i, l in enumerate(lens)]
        for nm in names:
            for b in nm:
                ex.assume(b.t != 0)
            ex.assume(iomodels.utf8_valid(nm))
        ex.blob_case = dict(names=names)
        tags = Struct([VecM([StrV(list(nm), None) for nm in names])], 'Tags')
        out = ex.force(ex.call_fn(F_ENC, [Ptr(Cell(tags))]))
        od = out.items if isinstance(out, VecM) else out.data
        want = []
        for i, nm in enumerate(names):
            if i:
                want.append(mk_int(0, 'u8'))
            want.extend(nm)
        if len(od) != len(want) or ex.sat(z3.Or([x.t != y.t for x, y in zip(od, want)])):
            raise Violation('C17.blob[tags_encode]: encode() is not the names joined by NUL')
        res = decode(od)
        if res.variant != 'Ok':
            raise Violation('C17.blob[tags_roundtrip]: decode(encode(t)) fails')
        got = res.f[0].f[0].items
        if len(got) != len(names):
            raise Violation('C17.blob[tags_roundtrip]: %d tags come back from %d' % (len(got), len(names)))
        for g, nm in zip(got, names):
            gd = deref(g).data
            if len(gd) != len(nm) or ex.sat(z3.Or([x.t != y.t for x, y in zip(gd, nm)])):
                raise Violation('C17.blob[tags_roundtrip]: a tag changes through encode/decode')
        return 'ok'
    raise Unsupported('case ' + what)


def brick_rows():
    from .. import gen
    return gen.brick_color_rows()


def brick_case(prog, ex, case):
    """BrickColor::from_name on a symbolic string of `len` bytes: the result is the FIRST row of the make_brick_color! invocation
    whose name equals the string (the documented collision rule), None when no row has that name."""
    F = prog.resolve('BrickColor::from_name')
    if F is None:
        raise Unsupported('BrickColor::from_name not found in MIR')
    rows = brick_rows()
    n = case['len']
    bs = [sym_int('s%d' % i, 'u8') for i in range(n)]
    ex.blob_in = bs
    if n:
        ex.assume(iomodels.utf8_valid(bs))     # a &str holds UTF-8
    try:
        res = ex.force(ex.call_fn(F, [StrV(list(bs), None)]))
    except PanicPath as p:
        raise Violation('C17.blob[brick_name_panic]: BrickColor::from_name panics on a %d-byte name: %s' % (n, p.msg))
    number = {r[0]: r[2] for r in rows}
    if res.variant == 'Some':
        v = ex.force(res.f[0])
        if v.variant not in number:
            raise Unsupported('from_name returned a variant %r that the macro invocation does not list' % (v.variant,))
        got = number[v.variant]
    else:
        got = -1
    # spec: first row (declaration order) whose name is the string
    want = z3.IntVal(-1)
    for var, name, num, _rgb in reversed(rows):
        nb = name.encode()
        if len(nb) != n:
            continue
        eq = z3.And([b.t == c for b, c in zip(bs, nb)]) if n else z3.BoolVal(True)
        want = z3.If(eq, z3.IntVal(num), want)
    if ex.sat(want != got):
        ex.assume(want != got)
        raise Violation('C17.blob[brick_name]: BrickColor::from_name(s) is not the first palette entry named s (%d-byte names; got %s)' % (n, got if got >= 0 else 'None'))
    return 'ok' if got >= 0 else 'err'


def run_case(prog, ex, case):
    what = case['what']
    if what == 'brick_name':
        return brick_case(prog, ex, case)
    if what.startswith('tags_'):
        return tags_case(prog, ex, case)
    mats = materials(prog)
    dflt = defaults_from_source()
    if [n for n, _ in dflt] != mats:
        raise Unsupported('material list of the macro invocation %s differs from the enum in MIR %s' % ([n for n, _ in dflt][:3], mats[:3]))
    F_ENC = prog.resolve('MaterialColors::encode')
    F_DEC = prog.resolve('MaterialColors::decode')
    F_GET = prog.resolve('MaterialColors::get_color')
    if None in (F_ENC, F_DEC, F_GET):
        raise Unsupported('MaterialColors::{encode,decode,get_color} not found in MIR')

    def get(mc, name):
        c = ex.force(ex.call_fn(F_GET, [Ptr(Cell(mc)), Enum('TerrainMaterials', name)]))
        fs = prog.structs['Color3uint8']
        return [c.f[fs.index(x)] for x in ('r', 'g', 'b')]

    def decode(bs):
        arr = ArrayV(list(bs))
        try:
            return ex.force(ex.call_fn(F_DEC, [SliceRef(Ptr(Cell(arr)), 0, len(bs))]))
        except PanicPath as p:
            raise Violation('C17.blob[materialcolors_decode_panic]: MaterialColors::decode panics on %d bytes: %s' % (len(bs), p.msg))

    if what == 'len':
        n = case['len']
        res = decode([sym_int('b%d' % i, 'u8') for i in range(n)])
        if res.variant == 'Ok':
            raise Violation('C17.blob[materialcolors_len]: MaterialColors::decode accepts a %d-byte blob (the format has 69 bytes)' % n)
        return 'err'
    if what == 'dec':
        bs = [sym_int('b%d' % i, 'u8') for i in range(69)]
        ex.blob_in = bs
        res = decode(bs)
        if res.variant != 'Ok':
            raise Violation('C17.blob[materialcolors_reject]: MaterialColors::decode rejects a 69-byte blob')
        mc = res.f[0]
        for i, name in enumerate(mats):
            got = get(mc, name)
            if ex.sat(z3.Or([g.t != bs[6 + 3 * i + j].t for j, g in enumerate(got)])):
                raise Violation('C17.blob[materialcolors_decode:%s]: decoded colour of %s is not bytes %d..%d of the blob' % (name, name, 6 + 3 * i, 8 + 3 * i))
        out = ex.force(ex.call_fn(F_ENC, [Ptr(Cell(mc))]))
        items = out.items
        if len(items) != 69:
            raise Violation('C17.blob[materialcolors_size]: encode() of a decoded value has %d bytes' % len(items))
        want = [mk_int(0, 'u8')] * 6 + bs[6:]
        if ex.sat(z3.Or([a.t != b_.t for a, b_ in zip(items, want)])):
            raise Violation('C17.blob[materialcolors_reencode]: encode(decode(b)) differs from b after the 6 reserved bytes')
        return 'ok'
    if what == 'enc':
        k = case['k']
        # the set materials: strictly increasing indices chosen by nondet (a map has distinct keys; order of insertion is irrelevant for a BTreeMap)
        idx, lo = [], 0
        for j in range(k):
            c = ex.nondet(len(mats) - lo - (k - 1 - j), 'set material %d' % j)
            idx.append(lo + c)
            lo = lo + c + 1
        cols = [[sym_int('c%d_%s' % (j, ch), 'u8') for ch in 'rgb'] for j in range(k)]
        entries = [[Enum('TerrainMaterials', mats[i]), Cell(color(None, prog, *cols[j]))] for j, i in enumerate(idx)]
        inner = MapM(entries, kind='BTreeMap')
        inner.ordered = True
        mc = Struct([inner], 'MaterialColors')
        ex.blob_case = dict(set=[(mats[i], cols[j]) for j, i in enumerate(idx)])
        try:
            out = ex.force(ex.call_fn(F_ENC, [Ptr(Cell(mc))]))
        except PanicPath as p:
            raise Violation('C17.blob[materialcolors_encode_panic]: MaterialColors::encode panics: %s' % p.msg)
        items = out.items
        if len(items) != 69:
            raise Violation('C17.blob[materialcolors_size]: encode() writes %d bytes (the format has 69)' % len(items))
        setmap = {mats[i]: cols[j] for j, i in enumerate(idx)}
        for i, name in enumerate(mats):
            want = setmap.get(name) or [mk_int(x, 'u8') for x in dflt[i][1]]
            if ex.sat(z3.Or([items[6 + 3 * i + j].t != want[j].t for j in range(3)])):
                raise Violation('C17.blob[materialcolors_encode:%s]: slot %d (%s) of the blob does not hold %s' % (name, i, name, 'the colour that was set' if name in setmap else 'the default colour'))
        if any(ex.sat(items[j].t != 0) for j in range(6)):
            raise Violation('C17.blob[materialcolors_reserved]: the 6 reserved bytes are not zero')
        res = decode(items)
        if res.variant != 'Ok':
            raise Violation('C17.blob[materialcolors_reject]: decode(encode(m)) fails')
        back = res.f[0]
        for i, name in enumerate(mats):
            a, b_ = get(back, name), get(mc, name)
            if ex.sat(z3.Or([x.t != y.t for x, y in zip(a, b_)])):
                raise Violation('C17.blob[materialcolors_roundtrip:%s]: colour of %s changes through encode/decode' % (name, name))
        return 'ok'
    raise Unsupported('case ' + what)


def explore(prog, case, stats=None, budget_s=600, max_viol=3):
    stats = stats or Stats()
    M = make_models(prog)
    res = dict(paths=0, ok=0, err=0, infeasible=0, violations=[], unsupported=None)
    work, seen, t0 = [[]], set(), time.time()
    while work:
        dec = work.pop()
        ex = Exec(prog, M, dec, stats)
        ex.world = World()
        try:
            r = run_case(prog, ex, case)
            res['paths'] += 1
            res['ok' if r == 'ok' else 'err'] += 1
            stats.paths += 1
        except Infeasible:
            res['infeasible'] += 1
        except Violation as v:
            res['paths'] += 1
            import re
            m = re.search(r'\[([\w:]+)\]', v.label)
            key = m.group(1).split(':')[0] if m else v.label
            if key not in seen:
                seen.add(key)
                try:
                    ok_, path_, detail_ = confirm(prog, ex, case, v.label)
                except Exception as e_:
                    ok_, path_, detail_ = False, None, 'replay machinery failed: %r' % (e_,)
                res['violations'].append(dict(label=v.label, case=dict(case), confirmed=ok_, replay=path_, replay_detail=detail_))
            if len(res['violations']) >= max_viol:
                break
        except (Unsupported, BoundExceeded) as u:
            res['unsupported'] = '%s: %s' % (type(u).__name__, u)
            break
        work.extend(ex.pending)
        if time.time() - t0 > budget_s:
            res['unsupported'] = 'time budget %ds exceeded after %d paths' % (budget_s, res['paths'])
            break
    return res


def confirm(prog, ex, case, label):
    """native: tools/replayer bytes material-colors <json>: the real encode / decode / get_color on the concrete witness"""
    import hashlib
    from .. import common as C, gen
    if ex.solver.check() != z3.sat:
        return False, None, 'path condition unsatisfiable at report time'
    m = ex.solver.model()
    ev = lambda t: m.eval(t, model_completion=True).as_long()
    if case['what'] == 'brick_name':
        name = bytes(ev(x.t) for x in ex.blob_in)
        spec = dict(name=list(name))
        rc, out, _ = C.run([gen.tool('replayer'), 'bytes', 'brick-name', json.dumps(spec)], timeout=60)
        os.makedirs(C.REPLAYS, exist_ok=True)
        path = os.path.join(C.REPLAYS, 'C17_brickname_%s.json' % hashlib.sha256(json.dumps(spec).encode()).hexdigest()[:10])
        rows = brick_rows()
        want = next((r[2] for r in rows if r[1].encode() == name), None)
        ok = False
        try:
            r = json.loads(out.strip().split('\n')[-1]) if 'PANIC' not in out else None
        except Exception:
            r = None
        if 'panic' in label:
            ok = 'PANIC' in out
        elif r is not None:
            ok = r.get('number') != want
        json.dump(dict(property='C17', label=label, input=dict(name=name.decode('utf-8', 'replace'), bytes=list(name)), expected_number=want, native=out[-800:], confirmed=ok,
                       how='tools/replayer bytes brick-name <json>'), open(path, 'w'), indent=1)
        return ok, path, 'native: ' + out.strip()[-200:]
    if case['what'].startswith('tags_'):
        if case['what'] == 'tags_dec':
            spec = dict(mode='decode', blob=[ev(x.t) for x in ex.blob_in])
        else:
            spec = dict(mode='encode', names=[[ev(b.t) for b in nm] for nm in ex.blob_case['names']])
        rc, out, _ = C.run([gen.tool('replayer'), 'bytes', 'tags', json.dumps(spec)], timeout=60)
        os.makedirs(C.REPLAYS, exist_ok=True)
        path = os.path.join(C.REPLAYS, 'C17_tags_%s.json' % hashlib.sha256(json.dumps(spec).encode()).hexdigest()[:10])
        try:
            r = json.loads(out.strip().split('\n')[-1]) if 'PANIC' not in out else None
        except Exception:
            r = None
        ok = False
        if 'panic' in label:
            ok = 'PANIC' in out
        elif r is not None and spec['mode'] == 'decode':
            segs = [list(x) for x in bytes(spec['blob']).split(b'\0') if x]
            def utf8(b):
                try:
                    bytes(b).decode('utf-8'); return True
                except UnicodeDecodeError:
                    return False
            if all(utf8(x) for x in segs):
                joined = list(b'\0'.join(bytes(x) for x in segs))
                ok = r.get('tags') != segs or r.get('reencoded') != joined
            else:
                ok = r.get('tags') is not None
        elif r is not None:
            joined = list(b'\0'.join(bytes(x) for x in spec['names']))
            ok = r.get('blob') != joined or r.get('tags_after_roundtrip') != spec['names']
        json.dump(dict(property='C17', label=label, input=spec, native=out[-800:], confirmed=ok, how='tools/replayer bytes tags <json>'), open(path, 'w'), indent=1)
        return ok, path, 'native: ' + out.strip()[-200:]
    if case['what'] in ('dec', 'len'):
        n = 69 if case['what'] == 'dec' else case['len']
        blob = [ev(x.t) for x in getattr(ex, 'blob_in', [])] or [0] * n
        spec = dict(mode='decode', blob=blob)
    else:
        spec = dict(mode='encode', set=[[name, [ev(c.t) for c in col]] for name, col in ex.blob_case['set']])
    rc, out, _ = C.run([gen.tool('replayer'), 'bytes', 'material-colors', json.dumps(spec)], timeout=60)
    os.makedirs(C.REPLAYS, exist_ok=True)
    path = os.path.join(C.REPLAYS, 'C17_materialcolors_%s.json' % hashlib.sha256(json.dumps(spec).encode()).hexdigest()[:10])
    ok = False
    try:
        r = json.loads(out.strip().split('\n')[-1]) if 'PANIC' not in out else None
    except Exception:
        r = None
    dflt = defaults_from_source()
    if 'panic' in label:
        ok = 'PANIC' in out
    elif r is not None and spec['mode'] == 'encode':
        setmap = {n: c for n, c in spec['set']}
        want = [0] * 6 + [x for n, d in dflt for x in (setmap.get(n) or d)]
        ok = r.get('blob') != want or r.get('colors_after_roundtrip') != r.get('colors')
    elif r is not None:
        if case['what'] == 'len':
            ok = r.get('decoded') is True
        else:
            ok = (not r.get('decoded')) or r.get('colors') != [spec['blob'][6 + 3 * i:9 + 3 * i] for i in range(21)] or r.get('reencoded') != [0] * 6 + spec['blob'][6:]
    json.dump(dict(property='C17', label=label, input=spec, native=out[-1500:], confirmed=ok, how='tools/replayer bytes material-colors <json>'), open(path, 'w'), indent=1)
    return ok, path, 'native: ' + out.strip()[-200:]
