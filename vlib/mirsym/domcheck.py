"""WeakDom obligations (C09 invariant, C10 reference model, C11 clone rule, C12 UniqueId bookkeeping):
inductive step from an arbitrary valid symbolic state through the real MIR of one operation."""
import itertools, time, json
import z3
from .values import *
from .interp import Exec, Stats
from .rbx_models import RbxModels, World, ref_val, none_ref, ref_sym, none_term
from .models import deref

OPS = ['insert', 'destroy', 'transfer_within', 'transfer', 'clone_within', 'clone_into_external', 'clone_multiple_into_external']


# ----------------------------------------------------------------------------- symbolic state
class Atoms:
    """Pairwise distinct, non-null symbolic Refs that name instances; canonicalisation of Ref terms to atoms."""

    def __init__(self, ex):
        self.ex = ex
        self.by_id = {}
        self.terms = {}
        self.cache = {}

    def declare(self, name):
        t = ref_sym(name)
        self.by_id[t.get_id()] = name
        self.terms[name] = t
        return t

    def adopt_fresh(self):
        for t in self.ex.world.fresh_refs:
            if t.get_id() not in self.by_id:
                nm = str(t)
                self.by_id[t.get_id()] = nm
                self.terms[nm] = t

    def canon(self, term):
        """-> atom name | 'none' | ('other', text) ; raises Unsupported when the path does not determine it"""
        t = term.t if isinstance(term, Sc) else term
        k = t.get_id()
        if k in self.by_id:
            return self.by_id[k]
        if k in self.cache:
            return self.cache[k]
        if z3.is_int_value(t) or z3.is_bv_value(t):
            r = 'none' if t.as_long() == 0 else ('other', hex(t.as_long()))
            self.cache[k] = r
            return r
        ex = self.ex
        self.adopt_fresh()
        # ask the solver which atom it is under the path condition
        ex.solver.push()
        ok = ex.solver.check()
        ex.stats.queries += 1
        m = ex.solver.model()
        ex.solver.pop()
        v = m.eval(t, model_completion=True)
        cands = [(nm, a) for nm, a in self.terms.items() if m.eval(a, model_completion=True).eq(v)]
        if (z3.is_int_value(v) or z3.is_bv_value(v)) and v.as_long() == 0:
            cands = [('none', none_term())] + cands
        for nm, a in cands:
            if not ex.sat(t != a):
                self.cache[k] = nm
                return nm
        # provably different from every atom and from none?
        others = list(self.terms.values()) + [none_term()]
        if not ex.sat(z3.Or([t == a for a in others])):
            r = ('other', str(t))
            self.cache[k] = r
            return r
        raise Unsupported('Ref term not determined by the path condition: %s' % t)


class DomSpec:
    """Concrete (canonicalised) view of a WeakDom value: what the public API shows."""

    def __init__(self):
        self.nodes = {}      # atom -> dict(parent=atom|'none', children=[atoms], name=term, cls=term, props=[(key StrV, value)], inst=Struct)
        self.root = None
        self.uids = []       # UniqueId Structs in unique_ids set
        self.uid_guards = []

    def clone(self):
        d = DomSpec()
        d.root = self.root
        d.uids = list(self.uids)
        d.uid_guards = list(self.uid_guards)
        for k, n in self.nodes.items():
            d.nodes[k] = dict(parent=n['parent'], children=list(n['children']), name=n['name'], cls=n['cls'], props=list(n['props']), inst=n.get('inst'))
        return d


class DomHarness:
    def __init__(self, prog):
        self.prog = prog
        P = prog
        self.I = {f: P.field('Instance', f) for f in ('referent', 'children', 'parent', 'name', 'class', 'properties')}
        self.B = {f: P.field('InstanceBuilder', f) for f in ('referent', 'name', 'class', 'properties', 'children')}
        self.W = {f: P.field('WeakDom', f) for f in ('instances', 'root_ref', 'unique_ids')}
        self.fn = {}
        for op in OPS + ['descendants_of', 'from_raw', 'new', 'get_unique_id', 'get_by_ref']:
            f = P.resolve('WeakDom::' + op)
            if f is None:
                raise Unsupported('WeakDom::%s not found in MIR' % op)
            self.fn[op] = f
        self.fn['next'] = P.resolve('<WeakDomDescendants as Iterator>::next')
        if self.fn['next'] is None:
            raise Unsupported('WeakDomDescendants::next not found')

    # ---------------------------------------------------------------- building values
    def mk_instance(self, ref, children, parent, name, cls, props):
        f = [None] * 6
        f[self.I['referent']] = ref_val(ref)
        f[self.I['children']] = VecM([ref_val(c) for c in children])
        f[self.I['parent']] = ref_val(parent)
        f[self.I['name']] = name
        f[self.I['class']] = cls
        f[self.I['properties']] = MapM([[k, Cell(v)] for k, v in props], kind='UstrMap')
        return Struct(f, 'Instance')

    def mk_builder(self, ref, name, cls, props, children):
        f = [None] * 5
        f[self.B['referent']] = ref_val(ref)
        f[self.B['name']] = name
        f[self.B['class']] = cls
        f[self.B['properties']] = VecM([Struct([k, v]) for k, v in props])
        f[self.B['children']] = VecM(children)
        return Struct(f, 'InstanceBuilder')

    def mk_props(self, ex, tag, i, cfg, ref_targets):
        """property list of node i according to cfg: optional UniqueId, nref Ref properties, one opaque Int32"""
        props = []
        if cfg['uid'](i):
            uid = Struct([sym_int('%s_uid%d_i' % (tag, i), 'u32'), sym_int('%s_uid%d_t' % (tag, i), 'u32'), sym_int('%s_uid%d_r' % (tag, i), 'i64')], 'UniqueId')
            props.append((StrV.lit(b'UniqueId'), Enum('Variant', 'UniqueId', [uid])))
        for j in range(cfg['nref'](i)):
            v = ref_sym('%s_n%d_ref%d' % (tag, i, j))
            ex.world.refs.append(v)       # freshness of Ref::new covers every Ref value in the state
            props.append((StrV.lit(b'RefProp%d' % j), Enum('Variant', 'Ref', [ref_val(v)])))
        if cfg.get('other', True):
            props.append((StrV.lit(b'Value'), Enum('Variant', 'Int32', [sym_int('%s_n%d_val' % (tag, i), 'i32')])))
        return props

    def build_dom(self, ex, atoms, tag, shape, cfg):
        """shape: parent index per node (node 0 = root, shape[0] ignored). children listed in index order (symmetry:
        every ordered forest is isomorphic to such a labelling)."""
        n = len(shape)
        refs = [atoms.declare('%s_r%d' % (tag, i)) for i in range(n)]
        entries = []
        uids = []
        for i in range(n):
            kids = [refs[c] for c in range(1, n) if shape[c] == i]
            parent = none_term() if (i == 0 or shape[i] < 0) else refs[shape[i]]
            props = self.mk_props(ex, tag, i, cfg, None)
            for k, v in props:
                if v.variant == 'UniqueId':
                    uids.append(v.f[0])
            inst = self.mk_instance(refs[i], kids, parent, StrV(None, z3.Int('%s_name%d' % (tag, i))), StrV(None, z3.Int('%s_class%d' % (tag, i))), props)
            entries.append([ref_val(refs[i]), Cell(inst)])
        f = [None] * 3
        f[self.W['instances']] = MapM(entries, kind='AHashMap')
        f[self.W['root_ref']] = ref_val(refs[0])
        f[self.W['unique_ids']] = SetM(list(uids), kind='AHashSet')
        # representation invariant on UniqueIds: pairwise distinct within the DOM
        for a, b in itertools.combinations(uids, 2):
            ex.assume(z3.Not(ex.models.val_eq(ex, a, b)))
        ex.world.unique_ids.extend(uids)
        return Struct(f, 'WeakDom'), refs

    def build_builder_tree(self, ex, atoms, tag, shape, cfg):
        """an InstanceBuilder tree with fresh (distinct, not in any DOM) referents"""
        n = len(shape)
        refs = [atoms.declare('%s_b%d' % (tag, i)) for i in range(n)]
        built = {}
        uids = []
        for i in reversed(range(n)):
            kids = [built[c] for c in range(1, n) if shape[c] == i]
            props = self.mk_props(ex, tag + 'b', i, cfg, None)
            for k, v in props:
                if v.variant == 'UniqueId':
                    uids.append(v.f[0])
            built[i] = self.mk_builder(refs[i], StrV(None, z3.Int('%s_bname%d' % (tag, i))), StrV(None, z3.Int('%s_bclass%d' % (tag, i))), props, kids)
        ex.world.unique_ids.extend(uids)
        return built[0], refs, uids

    # ---------------------------------------------------------------- reading values back
    def snapshot(self, ex, atoms, dom):
        atoms.adopt_fresh()
        d = DomSpec()
        d.root = atoms.canon(dom.f[self.W['root_ref']])
        for k, c in dom.f[self.W['instances']].entries:
            inst = c.v
            key = atoms.canon(k)
            if key in d.nodes:
                raise Violation('duplicate key in instances map: %s' % (key,))
            d.nodes[key] = dict(
                referent=atoms.canon(inst.f[self.I['referent']]),
                parent=atoms.canon(inst.f[self.I['parent']]),
                children=[atoms.canon(x) for x in inst.f[self.I['children']].items],
                name=inst.f[self.I['name']], cls=inst.f[self.I['class']],
                props=[(pk, pc.v) for pk, pc in inst.f[self.I['properties']].entries], inst=inst)
        d.uids = list(dom.f[self.W['unique_ids']].items)
        d.uid_guards = list(dom.f[self.W['unique_ids']].guards)
        return d

    # ---------------------------------------------------------------- invariant (the property's own)
    def inv_violations(self, ex, d, what):
        out = []
        N = d.nodes
        if d.root not in N:
            out.append('%s: root %s does not exist' % (what, d.root))
        elif N[d.root]['parent'] != 'none':
            out.append('%s: root has a parent' % what)
        listed = {}
        for k, n in N.items():
            if n['referent'] != k:
                out.append('%s: instance stored under %s has referent %s' % (what, k, n['referent']))
            for c in n['children']:
                if c not in N:
                    out.append('%s: %s lists child %s which does not exist' % (what, k, c))
                elif N[c]['parent'] != k:
                    out.append('%s: %s lists child %s whose parent is %s' % (what, k, c, N[c]['parent']))
                listed[(k, c)] = listed.get((k, c), 0) + 1
        for k, n in N.items():
            p = n['parent']
            if p != 'none':
                if p not in N:
                    out.append('%s: %s has parent %s which does not exist' % (what, k, p))
                elif listed.get((p, k), 0) != 1:
                    out.append('%s: %s is listed %d times by its parent %s' % (what, k, listed.get((p, k), 0), p))
        for (p, c), cnt in listed.items():
            if cnt > 1:
                out.append('%s: %s lists %s %d times' % (what, p, c, cnt))
        # acyclic
        for k in N:
            seen, x = set(), k
            while x in N and x not in seen:
                seen.add(x)
                x = N[x]['parent']
            if x in seen:
                out.append('%s: %s is its own ancestor' % (what, k))
                break
        return out

    def uid_inv_violations(self, ex, d, what):
        """unique_ids = { ids held by instances }, pairwise distinct (decided by the solver on the symbolic ids)"""
        out = []
        held = []
        for k, n in d.nodes.items():
            for pk, pv in n['props']:
                if pk.concrete_bytes() == b'UniqueId' and isinstance(pv, Enum) and pv.variant == 'UniqueId':
                    held.append((k, pv.f[0]))
        M = ex.models
        for (ka, a), (kb, b) in itertools.combinations(held, 2):
            if ex.sat(M.val_eq(ex, a, b)):
                out.append('%s: instances %s and %s can hold the same UniqueId' % (what, ka, kb))
        ent = list(zip(d.uids, d.uid_guards))
        def hit(u, g, a):
            e = M.val_eq(ex, a, u)
            return e if g is None else z3.And(g, e)
        for k, a in held:
            if not ent or ex.sat(z3.And([z3.Not(hit(u, g, a)) for u, g in ent])):
                out.append('%s: UniqueId of %s is missing from the bookkeeping set' % (what, k))
        for u, g in ent:
            none_holds = z3.And([z3.Not(M.val_eq(ex, u, a)) for _, a in held]) if held else z3.BoolVal(True)
            if ex.sat(none_holds if g is None else z3.And(g, none_holds)):
                out.append('%s: bookkeeping set holds an id no instance has' % what)
        return out

    # ---------------------------------------------------------------- descendants iterator
    def descendants(self, ex, atoms, dom_ptr, start_ref, limit=32):
        it = ex.call_fn(self.fn['descendants_of'], [dom_ptr, start_ref])
        cell = Cell(it)
        out = []
        for _ in range(limit):
            r = ex.force(ex.call_fn(self.fn['next'], [Ptr(cell)]))
            if r.variant == 'None':
                return out
            inst = deref(r.f[0])
            out.append(atoms.canon(inst.f[self.I['referent']]))
        raise Violation('descendants iterator does not terminate within %d steps' % limit)

    def check_descendants(self, ex, atoms, dom, d, start, what):
        order = self.descendants(ex, atoms, Ptr(Cell(dom)), ref_val(atoms.terms[start]) if start in atoms.terms else none_ref())
        reach, stack = [], [start]
        while stack:
            x = stack.pop()
            reach.append(x)
            stack.extend(d.nodes[x]['children'])
        if sorted(map(str, order)) != sorted(map(str, reach)):
            raise Violation('%s: descendants_of(%s) yields %s, reachable set is %s' % (what, start, order, reach))
        pos = {x: i for i, x in enumerate(order)}
        for x in order:
            p = d.nodes[x]['parent']
            if x != start and p in pos and pos[p] > pos[x]:
                raise Violation('%s: descendants_of yields child %s before its parent %s' % (what, x, p))


def shapes(n, orphans=True):
    """parent vectors for n nodes, node 0 = root; parent index < own index, or -1 = no parent (a detached tree such as
    the result of clone_*: the invariant allows parentless instances besides the root)"""
    if n == 1:
        return [(0,)]
    lo = -1 if orphans else 0
    return [(0,) + s for s in itertools.product(*[range(lo, i) for i in range(1, n)])]


def tree_shapes(n):
    return shapes(n, orphans=False)


def subtree(d, x):
    out, stack = [], [x]
    while stack:
        y = stack.pop(0)
        out.append(y)
        stack.extend(d.nodes[y]['children'])
    return out
