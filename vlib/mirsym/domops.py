"""One symbolic step of each WeakDom operation + postconditions (C09 Inv, C10 reference model, C11 clone rule, C12 ids)."""
import itertools, time
import z3
from .values import *
from .interp import Exec, Stats
from .rbx_models import RbxModels, World, ref_val, none_ref, ref_sym, none_term
from .models import deref
from .domcheck import DomHarness, Atoms, DomSpec, shapes, subtree


class SkipPath(Exception):
    """a postcondition of another property failed and the remaining checks of this path presuppose it"""


def same_val(ex, a, b):
    """identical value (syntactically, else decided by the solver)"""
    if a is b:
        return True
    if isinstance(a, Sc) and isinstance(b, Sc):
        if a.t.eq(b.t):
            return True
        return not ex.sat(a.t != b.t)
    if isinstance(a, StrV) and isinstance(b, StrV):
        if a.sid is not None and b.sid is not None:
            return a.sid.eq(b.sid) or not ex.sat(a.sid != b.sid)
        if a.data is not None and b.data is not None and len(a.data) == len(b.data):
            return all(same_val(ex, x, y) for x, y in zip(a.data, b.data))
        return False
    if isinstance(a, Struct) and isinstance(b, Struct):
        return len(a.f) == len(b.f) and all(same_val(ex, x, y) for x, y in zip(a.f, b.f))
    if isinstance(a, Enum) and isinstance(b, Enum):
        return a.variant == b.variant and len(a.f) == len(b.f) and all(same_val(ex, x, y) for x, y in zip(a.f, b.f))
    return False


def props_dict(props):
    d = {}
    for k, v in props:
        d[k.concrete_bytes()] = v
    return d


class Case:
    """Result of one explored path."""
    def __init__(self):
        self.kind = None       # 'ok' | 'outside-precondition' | 'panic-outside' | 'infeasible'
        self.detail = ''


class OpRunner:
    def __init__(self, H, ex, cfg, want):
        self.H, self.ex, self.cfg, self.want = H, ex, cfg, want
        self.atoms = Atoms(ex)
        self.notes = []
        self.ignored = []
        self.scn = None

    def fail(self, label, msg):
        prop = label.split('.')[0].split('[')[0]
        if self.want.get('props') is None or prop in self.want['props']:
            raise Violation(label + ': ' + msg)
        self.ignored.append(label)

    # ------------------------------------------------------------ helpers
    def member(self, term, refs):
        return z3.Or([term == r for r in refs]) if refs else z3.BoolVal(False)

    def register_refs(self, refs):
        self.ex.world.refs.extend(refs)

    def distinct(self, refs):
        ex = self.ex
        if len(refs) > 1:
            ex.assume(z3.Distinct(*refs))
        for r in refs:
            ex.assume(r != 0)

    def frame_check(self, pre, post, touched, what):
        """every instance outside `touched` keeps referent, parent, sibling position, name, class, properties"""
        ex = self.ex
        for k, n in pre.nodes.items():
            if k in touched:
                continue
            if k not in post.nodes:
                self.fail('C10.frame', '%s: untouched instance %s disappeared' % (what, k))
            m = post.nodes[k]
            if m['parent'] != n['parent']:
                self.fail('C10.frame', '%s: parent of untouched %s changed %s -> %s' % (what, k, n['parent'], m['parent']))
            if m['children'] != n['children']:
                self.fail('C10.frame', '%s: children of untouched %s changed %s -> %s' % (what, k, n['children'], m['children']))
            self.same_payload(n, m, what + ': untouched ' + str(k), 'C10.frame')

    def same_payload(self, n, m, what, label, skip_uid=False):
        ex = self.ex
        if not same_val(ex, n['name'], m['name']):
            self.fail(label, '%s: name changed' % what)
        if not same_val(ex, n['cls'], m['cls']):
            self.fail(label, '%s: class changed' % what)
        a, b = props_dict(n['props']), props_dict(m['props'])
        if set(a) != set(b):
            self.fail(label, '%s: property set changed %s -> %s' % (what, sorted(a), sorted(b)))
        for key in a:
            if key == b'UniqueId' and skip_uid:
                continue
            if a[key].variant == 'Ref' and skip_uid == 'clone':
                continue
            if not same_val(ex, a[key], b[key]):
                self.fail(label, '%s: property %r changed' % (what, key))

    def uid_of(self, n):
        for k, v in n['props']:
            if k.concrete_bytes() == b'UniqueId' and isinstance(v, Enum) and v.variant == 'UniqueId':
                return v.f[0]
        return None

    def check_uid_rule(self, incoming, post_uid, present_before, what):
        """replaced (by a fresh id) iff it collides with an id present in the destination; preserved exactly otherwise"""
        ex = self.ex
        M = ex.models
        if incoming is None:
            if post_uid is not None:
                self.fail('C12.rule', '%s: gained a UniqueId' % what)
            return
        if post_uid is None:
            self.fail('C12.rule', '%s: lost its UniqueId' % what)
        collide = z3.Or([M.val_eq(ex, incoming, p) for p in present_before]) if present_before else z3.BoolVal(False)
        preserved = same_val(ex, incoming, post_uid)
        if preserved:
            if ex.sat(collide):
                self.fail('C12.rule', '%s: id kept although it collides with an id already present in the DOM' % what)
        else:
            if ex.sat(z3.Not(collide)):
                self.fail('C12.rule', '%s: id replaced without a collision' % what)
            if present_before and ex.sat(z3.Or([M.val_eq(ex, post_uid, p) for p in present_before])):
                self.fail('C12.rule', '%s: regenerated id can equal an id already present' % what)

    def post_common(self, doms, what):
        """Inv (+ ids) on every DOM involved, descendants iterator from each root"""
        ex, H = self.ex, self.H
        snaps = []
        for name, dom in doms:
            d = H.snapshot(ex, self.atoms, dom)
            v = H.inv_violations(ex, d, '%s/%s' % (what, name))
            if v:
                self.fail('C09.inv', '; '.join(v[:3]))
            if self.cfg['check_uids']:
                v = H.uid_inv_violations(ex, d, '%s/%s' % (what, name))
                if v:
                    self.fail('C12.inv', '; '.join(v[:3]))
            if self.want.get('descendants', True):
                H.check_descendants(ex, self.atoms, dom, d, d.root, '%s/%s' % (what, name))
            snaps.append(d)
        return snaps

    def unresolvable(self, dom, refs_gone, what):
        """destroyed / transferred-away instances can no longer be looked up (real get_by_ref)"""
        ex, H = self.ex, self.H
        for nm in refs_gone:
            r = ex.force(ex.call_fn(H.fn['get_by_ref'], [Ptr(Cell(dom)), ref_val(self.atoms.terms[nm])]))
            if r.variant != 'None':
                self.fail('C09.gone', '%s: %s can still be looked up' % (what, nm))

    # ------------------------------------------------------------ operations
    def run(self, op, shapeA, shapeB):
        r = getattr(self, 'op_' + op)(shapeA, shapeB)
        if self.want.get('twin'):
            self.ex.check(z3.BoolVal(False), 'twin: postcondition `false` must be refuted')
        return r

    def call(self, fn, args, pre, scn=None):
        """run the real operation; a panic inside the documented precondition is a violation"""
        ex = self.ex
        # the documented precondition is assumed before the call (calls outside it are outside the property)
        ex.assume(pre)
        if not ex.sat():
            raise Infeasible()
        if scn is not None:
            scn['live'] = scn['doms']
            scn['doms'] = [clone_val(d) for d in scn['doms']]
            if 'builder' in scn['args']:
                scn['args']['builder'] = clone_val(scn['args']['builder'])
            self.scn = scn
        try:
            res = ex.call_fn(fn, args)
            if scn is not None:
                r_ = deref(res)
                scn['result'] = [res] if isinstance(res, Sc) else (list(r_.items) if isinstance(r_, VecM) else [])
            return True, res
        except PanicPath as p:
            if scn is not None:
                scn['panicked'] = True
            self.fail('C09.panic', 'panic inside the documented preconditions: %s at %s' % (p.msg, p.site))
            raise Infeasible()

    def op_destroy(self, shapeA, _):
        ex, H, A = self.ex, self.H, self.atoms
        dom, refs = H.build_dom(ex, A, 'A', shapeA, self.cfg)
        self.distinct(refs); self.register_refs(refs)
        a = ref_sym('arg_a')
        pre0 = H.snapshot(ex, A, dom)
        precond = z3.And(self.member(a, refs), a != refs[0])
        ok, _r = self.call(H.fn['destroy'], [Ptr(Cell(dom)), ref_val(a)], precond, dict(op='destroy', doms=[dom], args=dict(a=a)))
        if not ok or not ex.sat(precond):
            return 'outside'
        ex.assume(precond)
        ka = A.canon(a)
        (post,) = self.post_common([('A', dom)], 'destroy(%s)' % ka)
        gone = subtree(pre0, ka)
        exp = pre0.clone()
        for g in gone:
            del exp.nodes[g]
        p = pre0.nodes[ka]['parent']
        if p != 'none':
            exp.nodes[p]['children'] = [c for c in exp.nodes[p]['children'] if c != ka]
        self.compare(exp, post, 'destroy(%s)' % ka)
        self.frame_check(pre0, post, set(gone) | {p}, 'destroy')
        if p != 'none':
            self.same_payload(pre0.nodes[p], post.nodes[p], 'destroy: old parent', 'C10.frame')
        self.unresolvable(dom, gone, 'destroy')
        return 'ok'

    def compare(self, exp, post, what):
        """tree relation of the real DOM equals the reference model's"""
        if set(map(str, exp.nodes)) != set(map(str, post.nodes)):
            self.fail('C10.effect', '%s: instance set %s, expected %s' % (what, sorted(map(str, post.nodes)), sorted(map(str, exp.nodes))))
        for k, n in exp.nodes.items():
            m = post.nodes[k]
            if m['parent'] != n['parent']:
                self.fail('C10.effect', '%s: parent of %s is %s, expected %s' % (what, k, m['parent'], n['parent']))
            if m['children'] != n['children']:
                self.fail('C10.effect', '%s: children of %s are %s, expected %s' % (what, k, m['children'], n['children']))
        if post.root != exp.root:
            self.fail('C10.effect', '%s: root changed' % what)

    def op_transfer_within(self, shapeA, _):
        ex, H, A = self.ex, self.H, self.atoms
        dom, refs = H.build_dom(ex, A, 'A', shapeA, self.cfg)
        self.distinct(refs); self.register_refs(refs)
        a, b = ref_sym('arg_a'), ref_sym('arg_b')
        pre0 = H.snapshot(ex, A, dom)
        # documented preconditions: both in the DOM, referent is not the root, and (since the fix recorded in
        # known_findings.json) the new parent is neither the referent nor one of its descendants
        names = ['A_r%d' % i for i in range(len(refs))]
        allowed = []
        for i in range(1, len(refs)):
            sub = set(subtree(pre0, names[i]))
            for j in range(len(refs)):
                if names[j] not in sub:
                    allowed.append(z3.And(a == refs[i], b == refs[j]))
        precond = z3.Or(allowed) if allowed else z3.BoolVal(False)
        if ex.nondet(2, 'transfer_within region') == 1:
            # the excluded region itself: the call must not complete with a broken forest (it panics since the fix)
            inside = z3.And(self.member(a, refs[1:]), self.member(b, refs), z3.Not(precond))
            ex.assume(inside)
            if not ex.sat():
                raise Infeasible()
            self.scn = dict(op='transfer_within', doms=[clone_val(dom)], live=[dom], args=dict(a=a, b=b))
            try:
                ex.call_fn(H.fn['transfer_within'], [Ptr(Cell(dom)), ref_val(a), ref_val(b)])
            except PanicPath:
                return 'ok'
            self.scn['result'] = []
            post = H.snapshot(ex, A, dom)
            v = H.inv_violations(ex, post, 'transfer_within(%s,%s)' % (A.canon(a), A.canon(b)))
            if v:
                self.fail('C09.inv[transfer_within:dest_inside_subtree]', '; '.join(v[:2]))
            return 'ok'
        ok, _r = self.call(H.fn['transfer_within'], [Ptr(Cell(dom)), ref_val(a), ref_val(b)], precond, dict(op='transfer_within', doms=[dom], args=dict(a=a, b=b)))
        ka, kb = A.canon(a), A.canon(b)
        what = 'transfer_within(%s,%s)' % (ka, kb)
        (post,) = self.post_common([('A', dom)], what)
        exp = pre0.clone()
        p = pre0.nodes[ka]['parent']
        if p != 'none':
            exp.nodes[p]['children'] = [c for c in exp.nodes[p]['children'] if c != ka]
        exp.nodes[kb]['children'] = exp.nodes[kb]['children'] + [ka]
        exp.nodes[ka]['parent'] = kb
        self.compare(exp, post, what)
        self.frame_check(pre0, post, {ka, p, kb}, what)
        for k in {ka, p, kb} - {'none'}:
            self.same_payload(pre0.nodes[k], post.nodes[k], what + ': ' + str(k), 'C10.frame')
        if post.nodes[ka]['children'] != pre0.nodes[ka]['children']:
            self.fail('C10.effect', what + ': internal order of the moved subtree changed')
        return 'ok'

    def op_insert(self, shapeA, shapeB):
        ex, H, A = self.ex, self.H, self.atoms
        dom, refs = H.build_dom(ex, A, 'A', shapeA, self.cfg)
        builder, brefs, buids = H.build_builder_tree(ex, A, 'N', shapeB, self.cfg)
        self.distinct(refs + brefs); self.register_refs(refs + brefs)
        a = ref_sym('arg_a')
        pre0 = H.snapshot(ex, A, dom)
        present0 = list(pre0.uids)
        precond = z3.Or(a == 0, self.member(a, refs))
        # reference: builder nodes in BFS order
        ok, res = self.call(H.fn['insert'], [Ptr(Cell(dom)), ref_val(a), builder], precond, dict(op='insert', doms=[dom], args=dict(a=a, builder=builder)))
        if not ok or not ex.sat(precond):
            return 'outside'
        ex.assume(precond)
        ka = A.canon(a)
        what = 'insert(%s, builder%s)' % (ka, list(shapeB))
        (post,) = self.post_common([('A', dom)], what)
        bnames = ['N_b%d' % i for i in range(len(shapeB))]
        if A.canon(res) != bnames[0]:
            self.fail('C10.effect', what + ': returned referent is not the builder root')
        exp = pre0.clone()
        for i, nm in enumerate(bnames):
            kids = [bnames[c] for c in range(1, len(shapeB)) if shapeB[c] == i]
            exp.nodes[nm] = dict(parent=(ka if i == 0 else bnames[shapeB[i]]), children=kids, name=None, cls=None, props=[])
        if ka != 'none':
            exp.nodes[ka]['children'] = exp.nodes[ka]['children'] + [bnames[0]]
        self.compare(exp, post, what)
        self.frame_check(pre0, post, set(bnames) | ({ka} if ka != 'none' else set()), what)
        if ka != 'none':
            self.same_payload(pre0.nodes[ka], post.nodes[ka], what + ': parent', 'C10.frame')
        # payload of inserted nodes = builder payload; ids per the collision rule, in BFS insertion order
        bnodes = self.builder_nodes(self.scn['args']['builder'], bnames)
        order = self.bfs(shapeB)
        present = list(present0)
        for i in order:
            nm = bnames[i]
            bn = bnodes[nm]
            self.same_payload(bn, post.nodes[nm], what + ': inserted ' + nm, 'C10.effect', skip_uid=True)
            if self.cfg['check_uids']:
                pu = self.uid_of(post.nodes[nm])
                self.check_uid_rule(self.uid_of(bn), pu, present, what + ': ' + nm)
                if pu is not None:
                    present.append(pu)
        return 'ok'

    def bfs(self, shape):
        order, q = [], [0]
        while q:
            x = q.pop(0)
            order.append(x)
            q.extend(c for c in range(1, len(shape)) if shape[c] == x)
        return order

    def builder_nodes(self, builder, names):
        """payload view of each builder node (collected before the call moved them: values are shared objects)"""
        H = self.H
        out = {}
        def walk(b, idx_iter):
            pass
        # names follow the construction order in build_builder_tree: index i <-> names[i]
        stack = [(builder, 0)]
        # rebuild by matching referent atoms
        todo = [builder]
        while todo:
            b = todo.pop()
            nm = self.atoms.canon(b.f[H.B['referent']])
            out[nm] = dict(name=b.f[H.B['name']], cls=b.f[H.B['class']], props=[(p.f[0], p.f[1]) for p in b.f[H.B['properties']].items])
            todo.extend(b.f[H.B['children']].items)
        return out

    def op_transfer(self, shapeA, shapeB):
        ex, H, A = self.ex, self.H, self.atoms
        src, srefs = H.build_dom(ex, A, 'A', shapeA, self.cfg)
        dst, drefs = H.build_dom(ex, A, 'D', shapeB, self.cfg)
        self.distinct(srefs + drefs); self.register_refs(srefs + drefs)
        a, b = ref_sym('arg_a'), ref_sym('arg_b')
        preS, preD = H.snapshot(ex, A, src), H.snapshot(ex, A, dst)
        precond = z3.And(self.member(a, srefs), a != srefs[0], self.member(b, drefs))
        ok, _r = self.call(H.fn['transfer'], [Ptr(Cell(src)), ref_val(a), Ptr(Cell(dst)), ref_val(b)], precond, dict(op='transfer', doms=[src, dst], args=dict(a=a, b=b)))
        if not ok or not ex.sat(precond):
            return 'outside'
        ex.assume(precond)
        ka, kb = A.canon(a), A.canon(b)
        what = 'transfer(%s -> %s)' % (ka, kb)
        postS, postD = self.post_common([('src', src), ('dest', dst)], what)
        moved = subtree(preS, ka)
        expS, expD = preS.clone(), preD.clone()
        p = preS.nodes[ka]['parent']
        if p != 'none':
            expS.nodes[p]['children'] = [c for c in expS.nodes[p]['children'] if c != ka]
        for g in moved:
            n = expS.nodes.pop(g)
            expD.nodes[g] = n
        expD.nodes[ka]['parent'] = kb
        expD.nodes[kb]['children'] = expD.nodes[kb]['children'] + [ka]
        self.compare(expS, postS, what + ' src')
        self.compare(expD, postD, what + ' dest')
        self.frame_check(preS, postS, set(moved) | {p}, what + ' src')
        self.frame_check(preD, postD, {kb}, what + ' dest')
        if p != 'none':
            self.same_payload(preS.nodes[p], postS.nodes[p], what + ': old parent', 'C10.frame')
        self.same_payload(preD.nodes[kb], postD.nodes[kb], what + ': new parent', 'C10.frame')
        present = list(preD.uids)
        for g in moved:      # BFS order = order of insertion into dest
            self.same_payload(preS.nodes[g], postD.nodes[g], what + ': moved ' + str(g), 'C10.effect', skip_uid=True)
            if g != ka and postD.nodes[g]['children'] != preS.nodes[g]['children']:
                self.fail('C10.effect', what + ': internal order changed')
            if self.cfg['check_uids']:
                pu = self.uid_of(postD.nodes[g])
                self.check_uid_rule(self.uid_of(preS.nodes[g]), pu, present, what + ': ' + str(g))
                if pu is not None:
                    present.append(pu)
        self.unresolvable(src, moved, what)
        return 'ok'

    # ------------------------------------------------------------ builder API (the "built subtree" of C10)
    def op_builder(self, shapeA, _):
        """InstanceBuilder methods on a symbolic builder with len(shapeA)-1 existing children and the cfg's properties:
        children / properties are appended in call order, the other fields are untouched."""
        ex, H, A = self.ex, self.H, self.atoms
        P = ex.prog
        B = H.B
        nkids = len(shapeA) - 1
        flat = (0,) + (0,) * nkids
        b, brefs, _u = H.build_builder_tree(ex, A, 'N', flat, self.cfg)
        extra1, r1, _ = H.build_builder_tree(ex, A, 'X', (0,), self.cfg)
        extra2, r2, _ = H.build_builder_tree(ex, A, 'Y', (0, 0), self.cfg)
        self.distinct(brefs + r1 + r2); self.register_refs(brefs + r1 + r2)
        methods = ['with_child', 'add_child', 'with_children', 'add_children', 'with_property', 'add_property', 'with_properties', 'add_properties',
                   'with_name', 'set_name', 'with_class', 'set_class', 'with_referent', 'new', 'empty', 'has_property']
        m = methods[ex.nondet(len(methods), 'builder method')]
        fn = P.resolve('InstanceBuilder::' + m)
        if fn is None:
            raise Unsupported('InstanceBuilder::%s not found' % m)
        pre = clone_val(b)
        key, val = StrV.lit(b'NewProp'), Enum('Variant', 'Int32', [sym_int('newprop_val', 'i32')])
        key2, val2 = StrV.lit(b'Value'), Enum('Variant', 'Int32', [sym_int('newprop_val2', 'i32')])
        name = StrV(None, z3.Int('new_name'))
        by_ref = m.startswith(('add_', 'set_', 'has_'))
        cell = Cell(b)
        me = Ptr(cell) if by_ref else b
        exp_children = list(pre.f[B['children']].items)
        exp_props = [(p.f[0], p.f[1]) for p in pre.f[B['properties']].items]
        exp_name, exp_class, exp_ref = pre.f[B['name']], pre.f[B['class']], pre.f[B['referent']]
        self.scn = dict(op='builder', doms=[], live=[], builder_result=None, args=dict(builder=clone_val(b), x=clone_val(extra1), y=clone_val(extra2)),
                        extra=dict(method=m, val=val, val2=val2, name=name))
        try:
            if m in ('with_child', 'add_child'):
                out = ex.call_fn(fn, [me, extra1]); exp_children.append(extra1)
            elif m in ('with_children', 'add_children'):
                out = ex.call_fn(fn, [me, VecM([extra1, extra2])]); exp_children += [extra1, extra2]
            elif m in ('with_property', 'add_property'):
                out = ex.call_fn(fn, [me, key, val]); exp_props.append((key, val))
            elif m in ('with_properties', 'add_properties'):
                out = ex.call_fn(fn, [me, VecM([Struct([key, val]), Struct([key2, val2])])]); exp_props += [(key, val), (key2, val2)]
            elif m in ('with_name', 'set_name'):
                out = ex.call_fn(fn, [me, name]); exp_name = name
            elif m in ('with_class', 'set_class'):
                out = ex.call_fn(fn, [me, name]); exp_class = name
            elif m == 'with_referent':
                nr = ref_val(A.declare('W_newref'))
                out = ex.call_fn(fn, [me, nr]); exp_ref = nr
            elif m == 'has_property':
                out = ex.call_fn(fn, [me, key2])
                want = any(k.concrete_bytes() == b'Value' for k, _ in exp_props)
                if out.concrete() is not want and ex.sat(out.t != z3.BoolVal(want)):
                    self.fail('C10.builder', 'has_property answers %s for a builder whose property list %s the key' % (out, 'contains' if want else 'lacks'))
                return 'ok'
            elif m in ('new', 'empty'):
                out = ex.call_fn(fn, [name] if m == 'new' else [])
                if out.f[B['children']].items or out.f[B['properties']].items:
                    self.fail('C10.builder', m + ': fresh builder is not empty')
                if m == 'new' and not (same_val(ex, out.f[B['class']], name) and same_val(ex, out.f[B['name']], name)):
                    self.fail('C10.builder', 'new: name/class are not the given class name')
                if A.canon(out.f[B['referent']]) in ('none',) or not str(A.canon(out.f[B['referent']])).startswith('newref'):
                    self.fail('C10.builder', m + ': referent is not fresh')
                return 'ok'
        except PanicPath as p_:
            self.fail('C10.builder', 'InstanceBuilder::%s panics: %s' % (m, p_.msg))
            return 'ok'
        res = cell.v if by_ref else out
        self.scn['builder_result'] = res
        if m == 'with_referent':
            self.scn['extra']['newref'] = nr
        got_children = res.f[B['children']].items
        if len(got_children) != len(exp_children) or any(not same_val(ex, x.f[B['referent']], y.f[B['referent']]) for x, y in zip(got_children, exp_children)):
            self.fail('C10.builder', '%s: children are %s, expected %s (builder order)' % (m, [str(A.canon(x.f[B['referent']])) for x in got_children], [str(A.canon(y.f[B['referent']])) for y in exp_children]))
        got_props = [(p.f[0], p.f[1]) for p in res.f[B['properties']].items]
        if len(got_props) != len(exp_props) or any(not (same_val(ex, a[0], b_[0]) and same_val(ex, a[1], b_[1])) for a, b_ in zip(got_props, exp_props)):
            self.fail('C10.builder', '%s: property list changed unexpectedly (%d entries, expected %d)' % (m, len(got_props), len(exp_props)))
        if not same_val(ex, res.f[B['name']], exp_name) or not same_val(ex, res.f[B['class']], exp_class) or not same_val(ex, res.f[B['referent']], exp_ref):
            self.fail('C10.builder', m + ': name / class / referent not as documented')
        return 'ok'

    # ------------------------------------------------------------ clones
    def check_clone(self, what, preS, postD, preD_keys, roots, new_roots, same_dom, present0):
        """isomorphism + Ref rewrite rule. roots: original root atoms; new_roots: returned atoms."""
        ex, A = self.ex, self.atoms
        mapping = {}
        order = []
        for r, nr in zip(roots, new_roots):
            if nr in preD_keys or nr in preS.nodes:
                self.fail('C11.fresh', what + ': clone root %s is not a fresh referent' % (nr,))
            if postD.nodes.get(nr) is None:
                self.fail('C11.shape', what + ': returned referent does not exist in the destination')
            if postD.nodes[nr]['parent'] != 'none':
                self.fail('C11.shape', what + ': clone root has a parent')
            stack = [(r, nr)]
            while stack:
                o, c = stack.pop(0)
                if c in mapping.values():
                    self.fail('C11.shape', what + ': copy %s used twice' % (c,))
                mapping[o] = c
                order.append(o)
                oc, cc = preS.nodes[o]['children'], postD.nodes[c]['children']
                if len(oc) != len(cc):
                    self.fail('C11.shape', what + ': copy of %s has %d children, original %d' % (o, len(cc), len(oc)))
                for x, y in zip(oc, cc):
                    if y in preD_keys or y in preS.nodes:
                        self.fail('C11.fresh', what + ': copy %s is not fresh' % (y,))
                    if postD.nodes[y]['parent'] != c:
                        self.fail('C11.shape', what + ': copy child has wrong parent')
                    stack.append((x, y))
        new_nodes = set(postD.nodes) - set(preD_keys)
        if set(map(str, new_nodes)) != set(map(str, mapping.values())):
            self.fail('C11.shape', what + ': destination gained %s, copies are %s' % (sorted(map(str, new_nodes)), sorted(map(str, mapping.values()))))
        # payload + Ref rule
        orig_terms = [(o, A.terms[o]) for o in mapping]
        dest_terms = [A.terms[k] for k in preD_keys]
        for o, c in mapping.items():
            n, m = preS.nodes[o], postD.nodes[c]
            self.same_payload(n, m, what + ': copy of ' + str(o), 'C11.payload', skip_uid='clone')
            a, b = props_dict(n['props']), props_dict(m['props'])
            for key, v in a.items():
                if v.variant != 'Ref':
                    continue
                pre_v, post_v = v.f[0].t, b[key].f[0].t
                expected = z3.If(self.member(pre_v, dest_terms), pre_v, none_term())
                for oo, ot in reversed(orig_terms):
                    expected = z3.If(pre_v == ot, A.terms[mapping[oo]], expected)
                if ex.sat(post_v != expected):
                    ex.assume(post_v != expected)
                    mdl = ex.solver.model() if ex.solver.check() == z3.sat else None
                    self.fail('C11.refs', what + ': Ref property %r of the copy of %s is not rewritten per the rule' % (key, o))
        # ids of the copies
        if self.cfg['check_uids']:
            present = list(present0)
            for o in order:
                c = mapping[o]
                pu = self.uid_of(postD.nodes[c])
                self.check_uid_rule(self.uid_of(preS.nodes[o]), pu, present, what + ': copy of ' + str(o))
                if pu is not None:
                    present.append(pu)
        return mapping

    def op_clone_within(self, shapeA, _):
        ex, H, A = self.ex, self.H, self.atoms
        dom, refs = H.build_dom(ex, A, 'A', shapeA, self.cfg)
        self.distinct(refs); self.register_refs(refs)
        a = ref_sym('arg_a')
        pre0 = H.snapshot(ex, A, dom)
        precond = self.member(a, refs)
        ok, res = self.call(H.fn['clone_within'], [Ptr(Cell(dom)), ref_val(a)], precond, dict(op='clone_within', doms=[dom], args=dict(a=a)))
        if not ok or not ex.sat(precond):
            return 'outside'
        ex.assume(precond)
        ka = A.canon(a)
        what = 'clone_within(%s)' % ka
        (post,) = self.post_common([('A', dom)], what)
        self.check_clone(what, pre0, post, list(pre0.nodes), [ka], [A.canon(res)], True, list(pre0.uids))
        # source untouched
        self.compare_subset(pre0, post, what)
        self.frame_check(pre0, post, set(), what)
        return 'ok'

    def compare_subset(self, pre, post, what):
        for k, n in pre.nodes.items():
            if k not in post.nodes:
                self.fail('C11.source', what + ': source instance %s disappeared' % (k,))
        if post.root != pre.root:
            self.fail('C11.source', what + ': root changed')

    def op_clone_into_external(self, shapeA, shapeB):
        ex, H, A = self.ex, self.H, self.atoms
        src, srefs = H.build_dom(ex, A, 'A', shapeA, self.cfg)
        dst, drefs = H.build_dom(ex, A, 'D', shapeB, self.cfg)
        self.distinct(srefs + drefs); self.register_refs(srefs + drefs)
        a = ref_sym('arg_a')
        preS, preD = H.snapshot(ex, A, src), H.snapshot(ex, A, dst)
        precond = self.member(a, srefs)
        ok, res = self.call(H.fn['clone_into_external'], [Ptr(Cell(src)), ref_val(a), Ptr(Cell(dst))], precond, dict(op='clone_into_external', doms=[src, dst], args=dict(a=a)))
        if not ok or not ex.sat(precond):
            return 'outside'
        ex.assume(precond)
        ka = A.canon(a)
        what = 'clone_into_external(%s)' % ka
        postS, postD = self.post_common([('src', src), ('dest', dst)], what)
        self.check_clone(what, preS, postD, list(preD.nodes), [ka], [A.canon(res)], False, list(preD.uids))
        self.compare(preS, postS, what + ' src')
        self.frame_check(preS, postS, set(), what + ' src')
        self.frame_check(preD, postD, set(), what + ' dest')
        return 'ok'

    def op_clone_multiple_into_external(self, shapeA, shapeB):
        ex, H, A = self.ex, self.H, self.atoms
        src, srefs = H.build_dom(ex, A, 'A', shapeA, self.cfg)
        dst, drefs = H.build_dom(ex, A, 'D', shapeB, self.cfg)
        self.distinct(srefs + drefs); self.register_refs(srefs + drefs)
        k = self.cfg.get('multi', 2)
        args = [ref_sym('arg_m%d' % i) for i in range(k)]
        preS, preD = H.snapshot(ex, A, src), H.snapshot(ex, A, dst)
        # assumed precondition (not stated by the docs, required for "corresponding copy" to be well defined):
        # every request names an instance of the source and the requested subtrees are pairwise disjoint
        names = ['A_r%d' % i for i in range(len(srefs))]
        subs0 = {nm: set(subtree(preS, nm)) for nm in names}
        allowed = []
        overlap_ok = bool(self.cfg.get('multi_overlap'))   # C09 only: Inv must survive overlapping / repeated requests too
        for combo in itertools.product(range(len(srefs)), repeat=k):
            if overlap_ok or all(not (subs0[names[i]] & subs0[names[j]]) for i, j in itertools.combinations(combo, 2)):
                allowed.append(z3.And([args[x] == srefs[i] for x, i in enumerate(combo)]))
        precond = z3.Or(allowed) if allowed else z3.BoolVal(False)
        arr = Ptr(Cell(ArrayV([ref_val(a) for a in args])))
        ok, res = self.call(H.fn['clone_multiple_into_external'], [Ptr(Cell(src)), SliceRef(arr, 0, k), Ptr(Cell(dst))], precond, dict(op='clone_multiple_into_external', doms=[src, dst], args=dict(refs=list(args))))
        if not ok or not ex.sat(precond):
            return 'outside'
        ex.assume(precond)
        ks = [A.canon(a) for a in args]
        # assumed precondition (not stated by the docs, required for "corresponding copy" to be well defined):
        # the requested subtrees are pairwise disjoint
        subs = [set(subtree(preS, x)) for x in ks]
        overlapping = any(subs[i] & subs[j] for i, j in itertools.combinations(range(k), 2))
        if overlapping and not overlap_ok:
            return 'outside'
        what = 'clone_multiple_into_external(%s)' % ks
        postS, postD = self.post_common([('src', src), ('dest', dst)], what)
        out = deref(res)
        if len(out.items) != k:
            self.fail('C11.shape', what + ': returned %d referents for %d requests' % (len(out.items), k))
        if not overlapping:
            # "the corresponding copy" is only well defined for disjoint requests; for overlapping ones only Inv, the
            # untouched source and the untouched rest of dest are demanded
            self.check_clone(what, preS, postD, list(preD.nodes), ks, [A.canon(x) for x in out.items], False, list(preD.uids))
        self.compare(preS, postS, what + ' src')
        self.frame_check(preS, postS, set(), what + ' src')
        self.frame_check(preD, postD, set(), what + ' dest')
        return 'ok'


def explore(prog, op, shapeA, shapeB, cfg, want, max_paths=20000, order_mode='insertion', stats=None, budget_s=None, replay=True, max_viol=3):
    """All paths of one (operation, pre-state shape) case.  Returns dict(paths, ok, outside, violations=[...], unsupported=...)."""
    H = DomHarness(prog)
    stats = stats or Stats()
    res = dict(paths=0, ok=0, outside=0, infeasible=0, violations=[], unsupported=None, notes={})
    work = [[]]
    t0 = time.time()
    known_seen, n_new = set(), 0
    models = RbxModels()
    models.order_mode = order_mode
    while work:
        dec = work.pop()
        ex = Exec(prog, models, dec, stats)
        ex.world = World()
        r = OpRunner(H, ex, cfg, want)
        try:
            kind = r.run(op, shapeA, shapeB)
            res['paths'] += 1
            res['ok' if kind == 'ok' else 'outside'] += 1
            stats.paths += 1
        except Infeasible:
            res['infeasible'] += 1
        except Violation as v:
            res['paths'] += 1
            rec = dict(label=v.label, op=op, shapeA=list(shapeA), shapeB=list(shapeB) if shapeB else None, decisions=list(ex.taken), notes=list(r.notes))
            if replay:
                from . import domreplay
                try:
                    ok_, path_, detail_ = domreplay.confirm(r, ex, v.label, want.get('prop', 'C09'), op)
                except Exception as e_:
                    ok_, path_, detail_ = False, None, 'replay machinery failed: %r' % (e_,)
                rec.update(confirmed=ok_, replay=path_, replay_detail=detail_)
            import re as _re
            km = _re.search(r'\[([\w:]+)\]', v.label)
            key = km.group(1) if km else '%s:%s' % (v.label.split(':')[0], op)
            if key in want.get('known', ()):
                if key not in known_seen:
                    known_seen.add(key)
                    res['violations'].append(rec)
            else:
                res['violations'].append(rec)
                n_new += 1
                if n_new >= max_viol:
                    break
        except SkipPath:
            res['paths'] += 1
            res['skipped'] = res.get('skipped', 0) + 1
        except (KeyError, IndexError) as e_:
            if r.ignored:
                res['paths'] += 1
                res['skipped'] = res.get('skipped', 0) + 1
            else:
                raise
        except (Unsupported, BoundExceeded) as u:
            res['unsupported'] = '%s: %s' % (type(u).__name__, u)
            break
        for n_ in r.notes:
            res['notes'][n_] = res['notes'].get(n_, 0) + 1
        work.extend(ex.pending)
        if res['paths'] + res['infeasible'] > max_paths:
            res['unsupported'] = 'path bound %d exceeded' % max_paths
            break
        if budget_s and time.time() - t0 > budget_s:
            res['unsupported'] = 'time budget %ds exceeded' % budget_s
            break
    return res


def model_json(m):
    if m is None:
        return None
    out = {}
    for d in m.decls():
        v = m[d]
        try:
            out[d.name()] = v.as_long() if hasattr(v, 'as_long') else str(v)
        except Exception:
            out[d.name()] = str(v)
    return out
