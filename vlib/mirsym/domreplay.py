"""Native replay of WeakDom counterexamples: the z3 model is turned into a concrete scenario, the real crates run it
(tools/replayer), and the observable post-state must equal the state the symbolic execution predicts under the same
model.  Only then is the violated postcondition reported as a VIOLATION."""
import json, os, hashlib, subprocess
import z3
from .values import *
from .. import common as C, gen


class Concretizer:
    def __init__(self, ex, model, H):
        self.ex, self.m, self.H = ex, model, H
        self.refmap = {0: 0}
        self.fresh_vals = set()
        for t in ex.world.fresh_refs:
            self.fresh_vals.add(self.ev(t))
        self.rev_intern = {v: k for k, v in StrV._intern.items()}

    def ev(self, t):
        v = self.m.eval(t, model_completion=True)
        if z3.is_int_value(v) or z3.is_bv_value(v):
            return v.as_long()
        if z3.is_true(v):
            return True
        if z3.is_false(v):
            return False
        raise Unsupported('cannot evaluate %s' % t)

    def ref(self, sc):
        v = self.ev(sc.t if isinstance(sc, Sc) else sc)
        if v not in self.refmap:
            self.refmap[v] = 0x1000 + len(self.refmap)
        return '%032x' % self.refmap[v]

    def is_fresh(self, sc):
        return self.ev(sc.t if isinstance(sc, Sc) else sc) in self.fresh_vals

    def string(self, s):
        if s.data is not None and s.concrete_bytes() is not None:
            return s.concrete_bytes().decode(errors='replace')
        v = self.ev(s.sid)
        if v in self.rev_intern:
            return self.rev_intern[v].decode(errors='replace')
        return 's%d' % v

    def signed(self, sc):
        v = self.ev(sc.t)
        w = INT_W[sc.ty]
        if sc.ty in SIGNED and v >= 1 << (w - 1):
            v -= 1 << w
        return v

    def variant(self, v):
        if v.variant == 'Ref':
            return {'Ref': self.ref(v.f[0])}
        if v.variant == 'UniqueId':
            return {'UniqueId': [self.signed(x) for x in v.f[0].f]}
        if v.variant == 'Int32':
            return {'Int32': self.signed(v.f[0])}
        raise Unsupported('variant ' + v.variant)

    def dom(self, dom):
        H = self.H
        insts = []
        for k, c in dom.f[H.W['instances']].entries:
            i = c.v
            insts.append(dict(ref=self.ref(k), referent=self.ref(i.f[H.I['referent']]), parent=self.ref(i.f[H.I['parent']]),
                              children=[self.ref(x) for x in i.f[H.I['children']].items],
                              name=self.string(i.f[H.I['name']]), **{'class': self.string(i.f[H.I['class']])},
                              props=[[self.string(pk), self.variant(pc.v)] for pk, pc in i.f[H.I['properties']].entries]))
        return dict(root=self.ref(dom.f[H.W['root_ref']]), instances=insts)

    def builder(self, b):
        H = self.H
        return dict(ref=self.ref(b.f[H.B['referent']]), name=self.string(b.f[H.B['name']]), **{'class': self.string(b.f[H.B['class']])},
                    props=[[self.string(p.f[0]), self.variant(p.f[1])] for p in b.f[H.B['properties']].items],
                    children=[self.builder(c) for c in b.f[H.B['children']].items])


def relabel(dump, known_refs, known_uids, result):
    """canonical form: refs outside `known_refs` become fresh#k in order of first encounter, ids outside known_uids 'fresh-uid'"""
    lab = {}

    def R(x):
        if x in known_refs or int(x, 16) == 0:
            return x
        if x not in lab:
            lab[x] = 'fresh#%d' % len(lab)
        return lab[x]
    out = {'result': [R(x) for x in result], 'doms': []}
    for d in dump:
        insts = d['instances']
        order, seen = [], set()
        queue = [x for x in result if x in insts] + [d['root']]
        while queue:
            x = queue.pop(0)
            if x in seen or x not in insts:
                continue
            seen.add(x); order.append(x)
            queue.extend(insts[x]['children'])
        order += sorted(k for k in insts if k not in seen)
        nd = {}
        for k in order:
            n = insts[k]
            props = []
            for pk, pv in sorted(n['props'], key=lambda p: p[0]):
                if 'Ref' in pv:
                    pv = {'Ref': R(pv['Ref'])}
                elif 'UniqueId' in pv and tuple(pv['UniqueId']) not in known_uids:
                    pv = {'UniqueId': 'fresh-uid'}
                props.append([pk, pv])
            nd[R(k)] = dict(referent=R(n.get('referent', k)), parent=R(n['parent']), children=[R(c) for c in n['children']], name=n['name'], cls=n['class'], props=props)
        out['doms'].append(dict(root=R(d['root']), instances=nd))
    return out


def collect_known(scn):
    refs, uids = set(), set()

    def props(ps):
        for pk, pv in ps:
            if 'UniqueId' in pv:
                uids.add(tuple(pv['UniqueId']))
            if 'Ref' in pv:
                refs.add(pv['Ref'])
    for d in scn['doms']:
        for n in d['instances']:
            refs.add(n['ref'])
            props(n['props'])

    def walk(b):
        refs.add(b['ref'])
        props(b['props'])
        for c in b['children']:
            walk(c)
    for bk in ('builder', 'x', 'y'):
        if bk in scn['args']:
            walk(scn['args'][bk])
    for k, v in scn['args'].items():
        if isinstance(v, str):
            refs.add(v)
        if isinstance(v, list):
            refs.update(x for x in v if isinstance(x, str))
    return refs, uids


def run_native(scn, path):
    with open(path, 'w') as f:
        json.dump(scn, f, indent=1)
    rc, out, dt = C.run([gen.tool('replayer'), 'dom', path], timeout=120)
    if 'PANIC' in out:
        return {'panic': out.strip().split('\t', 1)[-1]}
    if rc != 0:
        return {'error': out[-400:]}
    try:
        return json.loads(out.strip().split('\n')[-1])
    except ValueError:
        return {'error': out[-400:]}


def native_dump_list(nat):
    out = []
    for d in nat['doms']:
        insts = {}
        for k, n in d['instances'].items():
            insts[k] = dict(referent=n['referent'], parent=n['parent'], children=n['children'], name=n['name'], **{'class': n['class']}, props=[list(p) for p in n['props']])
        out.append(dict(root=d['root'], instances=insts))
    return out


def confirm(runner, ex, label, prop, tag):
    """Build scenario + prediction from the path's model, run natively, compare.  -> (confirmed, replay_path, detail)"""
    scn_sym = getattr(runner, 'scn', None)
    if scn_sym is None:
        return False, None, 'no scenario recorded for this path'
    if ex.solver.check() != z3.sat:
        return False, None, 'path condition not satisfiable at report time'
    model = ex.solver.model()
    H = runner.H
    cz = Concretizer(ex, model, H)
    try:
        scn = dict(op=scn_sym['op'], doms=[cz.dom(d) for d in scn_sym['doms']], args={})
        for k, v in scn_sym['args'].items():
            if k in ('builder', 'x', 'y'):
                scn['args'][k] = cz.builder(v)
            elif isinstance(v, list):
                scn['args'][k] = [cz.ref(x) for x in v]
            else:
                scn['args'][k] = cz.ref(v)
        if scn_sym['op'] == 'builder':
            e = scn_sym['extra']
            scn['args'].update(method=e['method'], val=cz.variant(e['val']), val2=cz.variant(e['val2']), name=cz.string(e['name']))
            if 'newref' in e:
                scn['args']['newref'] = cz.ref(e['newref'])
        known_r, known_u = collect_known(scn)
        scn['probe_uids'] = [list(u) for u in sorted(known_u)]
        panicked = scn_sym.get('panicked')
        predicted = None
        pred_taken = None
        if not panicked and scn_sym['op'] == 'builder':
            if scn_sym.get('builder_result') is None:
                return False, None, 'builder method did not complete'
            insts = []

            def walk(b, parent):
                bb = cz.builder(b)
                insts.append(dict(ref=bb['ref'], referent=bb['ref'], parent=parent, children=[c['ref'] for c in bb['children']], name=bb['name'],
                                  **{'class': bb['class']}, props=bb['props']))
                for c in b.f[H.B['children']].items:
                    walk(c, bb['ref'])
            walk(scn_sym['builder_result'], '%032x' % 0)
            predicted = ([dict(root=insts[0]['ref'], instances={n['ref']: n for n in insts})], [])
            pred_taken = None
        elif not panicked:
            live = [cz.dom(d) for d in scn_sym['live']]
            pl = []
            for d in live:
                pl.append(dict(root=d['root'], instances={n['ref']: n for n in d['instances']}))
            res = [cz.ref(x) for x in scn_sym.get('result', [])]
            predicted = (pl, res)
            pred_taken = []
            for d in scn_sym['live']:
                st = d.f[H.W['unique_ids']]
                members = []
                for u, g in zip(st.items, st.guards):
                    if g is None or cz.ev(g):
                        members.append(tuple(cz.signed(x) for x in u.f))
                pred_taken.append([tuple(u) in members for u in scn['probe_uids']])
    except Unsupported as u:
        return False, None, 'cannot concretise: %s' % u
    os.makedirs(C.REPLAYS, exist_ok=True)
    h = hashlib.sha256(json.dumps(scn, sort_keys=True).encode()).hexdigest()[:10]
    path = os.path.join(C.REPLAYS, '%s_%s_%s.json' % (prop, scn['op'], h))
    nat = run_native(scn, path)
    known_refs, known_uids = collect_known(scn)
    rec = dict(property=prop, label=label, scenario=scn, native=nat, how='tools/replayer dom <this file>; compare with "predicted"')
    detail = ''
    ok = False
    if panicked:
        ok = 'panic' in nat
        detail = 'native run panics: %s' % nat.get('panic') if ok else 'native run does not panic'
        rec['predicted'] = 'panic'
    elif 'panic' in nat or 'error' in nat:
        detail = 'native run failed where the symbolic run completed: %s' % (nat.get('panic') or nat.get('error'))
    else:
        pl, res = predicted
        p_rel = relabel(pl, known_refs, known_uids, res)
        n_rel = relabel(native_dump_list(nat), known_refs, known_uids, nat['result'])
        rec['predicted'] = p_rel
        rec['native_relabelled'] = n_rel
        rec['predicted_uid_taken'] = pred_taken
        if scn['op'] == 'builder':
            # duplicate property keys collapse when the builder becomes an instance (last one wins), ids may be regenerated
            # by WeakDom::new: compare tree shape, names, classes and the key sets
            def strip(d):
                return [dict(root=x['root'], instances={k: dict(parent=n['parent'], children=n['children'], name=n['name'], cls=n['cls'], keys=sorted({p[0] for p in n['props']})) for k, n in x['instances'].items()}) for x in d['doms']]
            ok = strip(p_rel) == strip(n_rel)
        else:
            ok = p_rel == n_rel and [list(x) for x in pred_taken] == nat.get('uid_taken')
        detail = 'native post-state equals the predicted post-state on which the postcondition fails' if ok else 'native post-state differs from the symbolic prediction (encoder error)'
    rec['confirmed'] = ok
    rec['detail'] = detail
    with open(path, 'w') as f:
        json.dump(dict(rec, **scn), f, indent=1, default=str)
    return ok, path, detail
