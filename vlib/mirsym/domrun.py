"""Case scheduling for the WeakDom obligations: (operation, pre-state shapes, configuration) cases run in parallel
worker processes; results are folded into Obligation records per (operation, configuration)."""
import os, re, time, multiprocessing as mp
from .. import common as C
from . import mirdump
from .program import Program
from .domcheck import shapes, tree_shapes
from . import domops
from .interp import Stats

CONFIGS = {
    # name: (uid(i), nref(i), check_uids, other)
    'plain': dict(uid=lambda i: False, nref=lambda i: 0, check_uids=False, other=True),
    'plain_overlap': dict(uid=lambda i: False, nref=lambda i: 0, check_uids=False, other=True, multi_overlap=True),
    'refs': dict(uid=lambda i: False, nref=lambda i: 1, check_uids=False, other=False),
    'refs2': dict(uid=lambda i: False, nref=lambda i: 2 if i == 1 else 1, check_uids=False, other=False),
    'uids': dict(uid=lambda i: True, nref=lambda i: 0, check_uids=True, other=False),
    'uids_mixed': dict(uid=lambda i: i % 2 == 1, nref=lambda i: 0, check_uids=True, other=False),
    'all': dict(uid=lambda i: True, nref=lambda i: 1, check_uids=True, other=True),
}
TWO_DOM = ('transfer', 'clone_into_external', 'clone_multiple_into_external')

_PROG = None


def _load():
    global _PROG
    if _PROG is None:
        _PROG = Program(['rbx_types', 'rbx_dom_weak'], mirdump.MIR_DIR)
    return _PROG


def twin(prop):
    """vacuity twin: the postcondition `false` at the end of a completed path must be reported as violated"""
    _load()
    ob = C.Obligation('M.twin', 'vacuity twin: forced false postcondition on destroy must be refuted', 'M', 'n=2')
    r = domops.explore(_PROG, 'destroy', (0, 0), None, CONFIGS['plain'], {'props': {prop}, 'prop': prop, 'twin': True}, replay=False, max_viol=1)
    ob.queries, ob.paths = 1, r['paths']
    if r['violations'] and 'twin' in r['violations'][0]['label']:
        ob.status, ob.vacuity = C.PASS, True
    else:
        ob.status, ob.detail = C.INCONCLUSIVE, 'twin was not refuted: %s' % (r['unsupported'] or r['violations'])
    return ob


def _work(case):
    op, shA, shB, cfgname, order_mode, want, budget = case
    prog = _load()
    st = Stats()
    t = time.time()
    try:
        r = domops.explore(prog, op, shA, shB, CONFIGS[cfgname], want, stats=st, order_mode=order_mode, budget_s=budget)
    except Exception as e:      # encoder crash: inconclusive, never a pass
        import traceback
        r = dict(paths=0, ok=0, outside=0, infeasible=0, violations=[], unsupported='encoder exception: %r %s' % (e, traceback.format_exc()[-600:]), notes={})
    r.update(case=(op, list(shA), list(shB) if shB else None, cfgname, order_mode), queries=st.queries, solver_s=st.solver_s, wall_s=time.time() - t,
             models=dict(st.models_used), fns=dict(st.fns_interpreted), blocks=len(st.blocks), checks=st.checks)
    return r


def make_cases(ops, cfgname, nA, nB, order_mode, want, budget, builder_sizes=(1, 2, 3)):
    cases = []
    for op in ops:
        if op == 'builder':
            for k in range(1, nA + 1):
                cases.append((op, (0,) * k, None, cfgname, order_mode, want, budget))
            continue
        for shA in shapes(nA):
            if op == 'insert':
                for nb in builder_sizes:
                    for shB in tree_shapes(nb):
                        cases.append((op, shA, shB, cfgname, order_mode, want, budget))
            elif op in TWO_DOM:
                for shB in shapes(nB):
                    cases.append((op, shA, shB, cfgname, order_mode, want, budget))
            else:
                cases.append((op, shA, None, cfgname, order_mode, want, budget))
    return cases


def refresh_mir():
    """Regenerate the MIR of the crates the DOM obligations interpret, from /repo's working tree."""
    t = time.time()
    for c in ('rbx_types', 'rbx_dom_weak'):
        mirdump.dump(c)
    return time.time() - t


def run(groups, prop, jobs=None):
    """groups: list of dict(id, desc, ops, cfg, nA, nB, order, budget[, builder_sizes]) -> list of Obligation"""
    jobs = jobs or min(14, os.cpu_count() or 4)
    want = {'props': {prop}, 'prop': prop, 'known': set(C.known_open_keys(prop))}
    all_cases = []
    for g in groups:
        cs = make_cases(g['ops'], g['cfg'], g['nA'], g.get('nB', 2), g.get('order', 'insertion'), want, g.get('budget', 600), g.get('builder_sizes', (1, 2, 3)))
        for c in cs:
            all_cases.append((g['id'], c))
    _load()
    with mp.get_context('fork').Pool(jobs) as pool:
        results = pool.map(_work, [c for _, c in all_cases], chunksize=1)
    by_group = {}
    for (gid, _), r in zip(all_cases, results):
        by_group.setdefault(gid, []).append(r)
    obs = []
    for g in groups:
        rs = by_group.get(g['id'], [])
        ob = C.Obligation(g['id'], g['desc'], 'M', 'ops=%s cfg=%s nA=%d nB=%s hash-order=%s' % (','.join(g['ops']), g['cfg'], g['nA'], g.get('nB', '-'), g.get('order', 'insertion')))
        ob.paths = sum(r['paths'] for r in rs)
        ob.queries = sum(r['queries'] for r in rs)
        ob.solver_s = sum(r['solver_s'] for r in rs)
        ob.wall_s = sum(r['wall_s'] for r in rs)
        fns, models = {}, {}
        for r in rs:
            for k, v in r['fns'].items():
                fns[k] = fns.get(k, 0) + v
            for k, v in r['models'].items():
                models[k] = models.get(k, 0) + v
        ob.functions = sorted(fns)
        ob.stubs = sorted(models)
        ob.extra.update(cases=len(rs), ok_paths=sum(r['ok'] for r in rs), infeasible=sum(r['infeasible'] for r in rs),
                        skipped_paths=sum(r.get('skipped', 0) for r in rs), postcondition_checks=sum(r['checks'] for r in rs))
        ob.samples = [dict(case=r['case'], paths=r['paths'], queries=r['queries']) for r in rs[:3]]
        uns = [r for r in rs if r['unsupported']]
        seen = set()
        for r in rs:
            for v in r['violations']:
                m = re.search(r'\[([\w:]+)\]', v['label'])
                key = m.group(1) if m else '%s:%s' % (v['label'].split(':')[0], v['op'])
                if key in seen:
                    continue
                seen.add(key)
                ob.violations.append(dict(key=key, what=v['label'][:300] + ' :: ' + str(v.get('replay_detail', '')), replay=v.get('replay'), confirmed=bool(v.get('confirmed'))))
        if uns:
            ob.status, ob.detail = C.INCONCLUSIVE, uns[0]['unsupported'][:400] + ' (case %s)' % (uns[0]['case'],)
        elif ob.violations:
            ob.status = C.FAIL
            ob.detail = ob.violations[0]['what'][:300]
        elif ob.paths == 0 or ob.extra['ok_paths'] == 0:
            ob.status, ob.detail = C.INCONCLUSIVE, 'vacuous: no completed path'
        else:
            ob.status, ob.vacuity = C.PASS, True
        obs.append(ob)
    return obs
