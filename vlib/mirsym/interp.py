"""Path-forking symbolic interpreter for parsed MIR (stateless DFS: a path = decision prefix, re-executed)."""
import re, time, struct, math
import z3
from .values import *
from . import parse
from .program import last_seg, strip_generics

FP32 = z3.Float32()
FP64 = z3.Float64()
RNE = z3.RNE()


def to_fp(sc):
    return z3.fpBVToFP(sc.t, FP32 if sc.ty == 'f32' else FP64)


def from_fp(term, ty):
    return Sc(z3.simplify(z3.fpToIEEEBV(term)), ty)


def bv_val(t):
    return t.as_long() if z3.is_bv_value(t) else None


class Frame:
    __slots__ = ('fn', 'cells', 'gen_consts')

    def __init__(self, fn):
        self.fn, self.cells, self.gen_consts = fn, {}, ()

    def cell(self, local):
        c = self.cells.get(local)
        if c is None:
            c = self.cells[local] = Cell(None)
        return c


class SliceView:
    """lvalue result of dereferencing a slice reference"""
    __slots__ = ('sl',)

    def __init__(self, sl):
        self.sl = sl


class Stats:
    def __init__(self):
        self.paths = self.panic_paths = self.infeasible = self.queries = self.checks = 0
        self.solver_s = 0.0
        self.steps = 0
        self.callees = {}
        self.models_used = {}
        self.fns_interpreted = {}
        self.blocks = set()


class Exec:
    def __init__(self, prog, models, decisions=(), stats=None, max_steps=200000, timeout_ms=20000):
        self.prog, self.models = prog, models
        self.solver = z3.Solver()
        self.solver.set('timeout', timeout_ms)
        self.decisions, self.taken, self.pending = list(decisions), [], []
        self.stats = stats or Stats()
        self.steps, self.max_steps = 0, max_steps
        self.fresh_n = 0
        self.depth = 0
        self.callee_cache = models.__dict__.setdefault('_callee_cache', {})     # shared by every path of an exploration
        self.alloc_requests = []
        self.notes = []
        self.world = None         # shared state for models (threads, clocks, ...)
        self.site = None
        self.pc_labels = []

    # ------------------------------------------------------------------ solver / forking
    def fresh(self, prefix='v'):
        self.fresh_n += 1
        return '%s!%d' % (prefix, self.fresh_n)

    def assume(self, cond):
        self.solver.add(cond)

    def sat(self, cond=None):
        t = time.time()
        if cond is not None:
            self.solver.push(); self.solver.add(cond)
        r = self.solver.check()
        if cond is not None:
            self.solver.pop()
        self.stats.queries += 1
        self.stats.solver_s += time.time() - t
        if r == z3.unknown:
            raise Unsupported('solver returned unknown: ' + self.solver.reason_unknown())
        return r == z3.sat

    def choose(self, conds, what=''):
        """Fork on a list of z3 Bool conditions (mutually exclusive by construction); returns the chosen index."""
        k = len(self.taken)
        simp = [z3.simplify(c) if not isinstance(c, bool) else z3.BoolVal(c) for c in conds]
        if k < len(self.decisions):
            pick = self.decisions[k]
            self.taken.append(pick)
            if not z3.is_true(simp[pick]):
                self.solver.add(simp[pick])
            return pick
        trues = [i for i, c in enumerate(simp) if z3.is_true(c)]
        if trues:
            feas = [trues[0]]
        else:
            cand = [i for i, c in enumerate(simp) if not z3.is_false(c)]
            # the conditions partition the current path condition (which is satisfiable): if every candidate but the
            # last is infeasible, the last one is feasible without asking
            feas = []
            for n_, i in enumerate(cand):
                if n_ == len(cand) - 1 and not feas:
                    feas.append(i)
                elif self.sat(simp[i]):
                    feas.append(i)
        if not feas:
            raise Infeasible()
        pick = feas[0]
        for alt in feas[1:]:
            self.pending.append(self.taken + [alt])
        self.taken.append(pick)
        if not z3.is_true(simp[pick]):
            self.solver.add(simp[pick])
        return pick

    def nondet(self, n, what=''):
        """Fork over n alternatives that are all feasible (environment choice: iteration order, schedule, shape)."""
        k = len(self.taken)
        if k < len(self.decisions):
            pick = self.decisions[k]
            self.taken.append(pick)
            return pick
        for alt in range(1, n):
            self.pending.append(self.taken + [alt])
        self.taken.append(0)
        return 0

    def branch(self, cond):
        """cond: z3 Bool -> python bool (forks)"""
        c = z3.simplify(cond)
        if z3.is_true(c):
            return True
        if z3.is_false(c):
            return False
        return self.choose([c, z3.Not(c)]) == 0

    def concretize(self, sc, lo, hi, what='value'):
        """Fork a symbolic integer over lo..hi-1; outside that range -> BoundExceeded path (only if feasible)."""
        v = sc.concrete() if isinstance(sc, Sc) else sc
        if v is not None:
            if not (lo <= v < hi) and what in ('index', 'slice get', 'Vec::remove index', 'range start', 'range end', 'swap', 'split_at'):
                raise BoundExceeded('%s %d outside [%d,%d)' % (what, v, lo, hi))
            return v
        w = sc.t.size()
        conds = [sc.t == z3.BitVecVal(k, w) for k in range(lo, hi)]
        conds.append(z3.Or(z3.ULT(sc.t, z3.BitVecVal(lo, w)), z3.UGE(sc.t, z3.BitVecVal(hi, w))) if lo > 0 else z3.UGE(sc.t, z3.BitVecVal(hi, w)))
        i = self.choose(conds, what)
        if i == hi - lo:
            raise BoundExceeded('%s outside [%d,%d)' % (what, lo, hi))
        return lo + i

    def check(self, goal, label, info=None):
        """Assertion: pc /\\ not goal must be unsat."""
        self.stats.checks += 1
        g = z3.simplify(goal) if not isinstance(goal, bool) else z3.BoolVal(goal)
        if z3.is_true(g):
            return
        if self.sat(z3.Not(g)):
            self.solver.push(); self.solver.add(z3.Not(g)); self.solver.check()
            m = self.solver.model()
            self.solver.pop()
            raise Violation(label, m, info)

    def force(self, e):
        """Make a lazy enum concrete (forks)."""
        if isinstance(e, Enum) and e.variant is None:
            i = self.choose([a[0] for a in e.alts], 'enum variant')
            cond, variant, fields = e.alts[i]
            e.variant, e.f, e.alts = variant, list(fields), None
        return e

    # ------------------------------------------------------------------ places
    def eval_place(self, fr, p):
        """-> Ptr | SliceView"""
        k = p[0]
        if k == 'local':
            return Ptr(fr.cell(p[1]))
        if k == 'deref':
            base = self.eval_place(fr, p[1])
            v = base.load() if isinstance(base, Ptr) else None
            if isinstance(v, Ptr):
                return v
            if isinstance(v, SliceRef):
                return SliceView(v)
            if isinstance(v, StrV):
                return base           # &str deref: the str itself
            if v is None or v is MOVED:
                raise Unsupported('deref of uninitialised/moved place in %s' % fr.fn.name)
            return base               # values modelled by-value behind a reference (FnItem, Opaque, ...)
        if k == 'field':
            base = self.eval_place(fr, p[1])
            if isinstance(base, SliceView):
                raise Unsupported('field of slice')
            return base.field(p[2])
        if k == 'downcast':
            base = self.eval_place(fr, p[1])
            v = base.load()
            if isinstance(v, Enum):
                self.force(v)
                if v.variant != p[2]:
                    raise Unsupported('downcast of %s to %s in %s' % (v, p[2], fr.fn.name))
            return base
        if k == 'index':
            base = self.eval_place(fr, p[1])
            idx = fr.cell(p[2]).v
            n = self.len_of(base)
            i = self.concretize(idx, 0, n, 'index')
            return base.sl.elem_ptr(i) if isinstance(base, SliceView) else base.field(i)
        if k == 'cindex':
            base = self.eval_place(fr, p[1])
            n = self.len_of(base)
            i = n - p[2] if p[4] else p[2]
            return base.sl.elem_ptr(i) if isinstance(base, SliceView) else base.field(i)
        if k == 'subslice':
            base = self.eval_place(fr, p[1])
            n = self.len_of(base)
            a, b = p[2], (n - p[3] if p[4] else p[3])
            if isinstance(base, SliceView):
                return SliceView(SliceRef(base.sl.ptr, base.sl.start + a, b - a))
            return SliceView(SliceRef(base, a, b - a))
        raise Unsupported('place kind ' + k)

    def len_of(self, lv):
        if isinstance(lv, SliceView):
            return lv.sl.n
        v = lv.load()
        if isinstance(v, (ArrayV, VecM)):
            return len(v.items)
        if isinstance(v, StrV) and v.data is not None:
            return len(v.data)
        raise Unsupported('len of %r' % (v,))

    def load_place(self, fr, p):
        lv = self.eval_place(fr, p)
        if isinstance(lv, SliceView):
            return lv.sl
        v = lv.load()
        if v is None:
            raise Unsupported('read of uninitialised %s in %s' % (p, fr.fn.name))
        return v

    def store_place(self, fr, p, v):
        lv = self.eval_place(fr, p)
        if isinstance(lv, SliceView):
            raise Unsupported('store to slice view')
        lv.store(v)

    # ------------------------------------------------------------------ operands / constants
    def operand(self, fr, o):
        k = o[0]
        if k == 'copy':
            return copy_val(self.load_place(fr, o[1]))
        if k == 'move':
            return copy_val(self.load_place(fr, o[1]))
        if k == 'const':
            return self.const(fr, o[1])
        raise Unsupported('operand ' + repr(o))

    FLOAT_NAMED = {'EPSILON': (1.1920929e-07, 2.220446049250313e-16), 'MAX': (3.4028234663852886e+38, 1.7976931348623157e+308),
                   'MIN': (-3.4028234663852886e+38, -1.7976931348623157e+308), 'INFINITY': (math.inf, math.inf),
                   'NEG_INFINITY': (-math.inf, -math.inf), 'MIN_POSITIVE': (1.1754943508222875e-38, 2.2250738585072014e-308)}

    def const(self, fr, text):
        t = text.strip()
        if t == 'true':
            return mk_bool(True)
        if t == 'false':
            return mk_bool(False)
        if t == '()':
            return Unit()
        m = re.fullmatch(r'(-?\d+)_(u8|i8|u16|i16|u32|i32|u64|i64|u128|i128|usize|isize)', t)
        if m:
            return mk_int(int(m.group(1)), m.group(2))
        if t.startswith('"'):
            return StrV.lit(self.unescape(t[1:-1]))
        if t.startswith('b"'):
            b = self.unescape(t[2:-1])
            return Ptr(Cell(ArrayV([mk_int(x, 'u8') for x in b])))
        m = re.fullmatch(r"'(.*)'", t, re.S)
        if m:
            ch = self.unescape(m.group(1)).decode('utf-8')
            return mk_int(ord(ch), 'char')
        m = re.fullmatch(r"b'(.*)'", t, re.S)
        if m:
            return mk_int(self.unescape(m.group(1))[0], 'u8')
        m = re.fullmatch(r'(-?[\d.]+(?:[eE][-+]?\d+)?|-?inf|NaN)(f32|f64)', t)
        if m:
            x = float(m.group(1).replace('NaN', 'nan'))
            return mk_int(f32_bits(x), 'f32') if m.group(2) == 'f32' else mk_int(f64_bits(x), 'f64')
        m = re.fullmatch(r'(?:.*::)?(?:<impl )?(f32|f64)>?::(\w+)', t)
        if m and m.group(2) in self.FLOAT_NAMED:
            a, b = self.FLOAT_NAMED[m.group(2)]
            return mk_int(f32_bits(a), 'f32') if m.group(1) == 'f32' else mk_int(f64_bits(b), 'f64')
        if m and m.group(2) == 'NAN':
            return mk_int(0x7fc00000, 'f32') if m.group(1) == 'f32' else mk_int(0x7ff8000000000000, 'f64')
        m = re.fullmatch(r'(?:core::num::<impl )?(u8|i8|u16|i16|u32|i32|u64|i64|u128|i128|usize|isize)>?::(MAX|MIN|BITS)', t)
        if m:
            ty = m.group(1)
            w = INT_W[ty]
            if m.group(2) == 'BITS':
                return mk_int(w, 'u32')
            if ty in SIGNED:
                return mk_int((1 << (w - 1)) - 1 if m.group(2) == 'MAX' else -(1 << (w - 1)), ty)
            return mk_int((1 << w) - 1 if m.group(2) == 'MAX' else 0, ty)
        if t.startswith('ZeroSized: '):
            ty = t[len('ZeroSized: '):]
            cm = re.match(r'\{closure@([^:}]+:\d+:\d+)', ty)
            if cm:
                return Closure(cm.group(1), [])
            fm = re.match(r'^(?:unsafe )?(?:extern "[^"]*" )?fn\(.*\{(.*)\}$', ty, re.S)
            if fm:
                return FnItem(fm.group(1))
            return Struct([], last_seg(ty))
        if t.startswith('fnitem '):
            return FnItem(t[7:])
        m = re.fullmatch(r'\{(alloc\d+): &(?:mut )?(.*)\}', t, re.S)
        if m:
            item = self.prog.allocs.get((fr.fn.crate, m.group(1)))
            if item is not None:
                # reference to a static: evaluated once per path, shared by every use
                st = self.world.__dict__.setdefault('statics', {}) if self.world is not None else {}
                key = (fr.fn.crate, item)
                if key not in st:
                    st[key] = Cell(self.named_const(fr, item, True))
                return Ptr(st[key])
            return self.named_const(fr, m.group(2).strip(), True)
        if 'promoted[' in t:
            pk = re.search(r'promoted\[\d+\]$', t)
            own = 'const %s::%s' % (fr.fn.name[6:] if fr.fn.name.startswith('const ') else fr.fn.name, pk.group(0)) if pk else None
            f = (self.prog.by_full.get((fr.fn.crate, own)) if own else None) or self.prog.by_full.get((fr.fn.crate, t)) or self.prog.by_full.get((fr.fn.crate, 'const ' + t))
            if f is None:
                # references carry the full path and generic arguments, definitions use the trimmed path: match on the
                # last segments (enclosing item, promoted[k]) within the same crate
                want = [strip_generics(x).strip() for x in self.prog.split_path(t) if not (x.startswith('<') and not x.startswith('<impl'))]
                best = None
                for (cr, nm), g in self.prog.by_full.items():
                    if cr != fr.fn.crate or not g.promoted or 'promoted[' not in nm:
                        continue
                    have = [strip_generics(x).strip() for x in self.prog.split_path(nm[6:] if nm.startswith('const ') else nm) if not (x.startswith('<') and not x.startswith('<impl'))]
                    k = 0
                    while k < min(len(want), len(have)) and want[-1 - k] == have[-1 - k]:
                        k += 1
                    if k >= 2 and (best is None or k > best[0]):
                        best = (k, g)
                f = best[1] if best else None
            if f is None:
                raise Unsupported('promoted constant not found: ' + t)
            return self.call_fn(f, [])
        return self.named_const(fr, t, False)

    def named_const(self, fr, name, is_static):
        h = self.models.const_model(self, name, is_static)
        if h is not None:
            return h
        segs = [strip_generics(x).strip() for x in self.prog.split_path(name) if not x.startswith('<')]
        if len(segs) >= 2 and segs[-2] in self.prog.enums and segs[-1] in self.prog.enums[segs[-2]]:
            return Enum(segs[-2], segs[-1], [])
        key = 'const ' + name
        for cr in [fr.fn.crate] + [c for c in self.prog.crates if c != fr.fn.crate]:
            f = self.prog.by_full.get((cr, key))
            if f is not None:
                return self.call_fn(f, [])
        ls = name.split('::')[-1]
        cands = [(cr, f) for (cr, nm), f in self.prog.by_full.items() if f.promoted and nm.startswith('const ') and 'promoted[' not in nm and nm[6:].split('::')[-1] == ls]
        same = [f for cr, f in cands if cr == fr.fn.crate]
        pick = same or [f for _, f in cands]
        if len(pick) == 1:
            return self.call_fn(pick[0], [])
        last = name.split('::')[-1]
        if re.fullmatch(r'[A-Z][A-Z0-9_]*', name) and len(fr.gen_consts) == 1:
            return mk_int(fr.gen_consts[0], 'usize')       # const generic parameter of the current function
        if re.fullmatch(r'[\w:]+', name) and last[:1].isupper() and not last.isupper():
            return Struct([], last)          # unit struct used as a value (RangeFull, PhantomData, ...)
        raise Unsupported('constant ' + name)

    @staticmethod
    def unescape(s):
        out = bytearray()
        i, n = 0, len(s)
        while i < n:
            ch = s[i]
            if ch == '\\':
                nx = s[i + 1]
                if nx == 'x':
                    out.append(int(s[i + 2:i + 4], 16)); i += 4; continue
                if nx == 'u':
                    j = s.index('}', i)
                    out += chr(int(s[i + 3:j], 16)).encode(); i = j + 1; continue
                out += {'n': b'\n', 't': b'\t', 'r': b'\r', '0': b'\0', '\\': b'\\', '"': b'"', "'": b"'"}.get(nx, nx.encode())
                i += 2
            else:
                out += ch.encode()
                i += 1
        return bytes(out)

    # ------------------------------------------------------------------ operators
    def binop(self, op, a, b):
        if not isinstance(a, Sc) or not isinstance(b, Sc):
            if op in ('Eq', 'Ne'):
                e = self.models.val_eq(self, a, b)
                return Sc(z3.simplify(e if op == 'Eq' else z3.Not(e)), 'bool')
            raise Unsupported('binop %s on %r, %r' % (op, a, b))
        ty = a.ty
        if ty == 'bool':
            x, y = a.t, b.t
            r = {'Eq': lambda: x == y, 'Ne': lambda: x != y, 'BitAnd': lambda: z3.And(x, y), 'BitOr': lambda: z3.Or(x, y),
                 'BitXor': lambda: z3.Xor(x, y), 'Lt': lambda: z3.And(z3.Not(x), y), 'Le': lambda: z3.Implies(x, y),
                 'Gt': lambda: z3.And(x, z3.Not(y)), 'Ge': lambda: z3.Implies(y, x)}.get(op)
            if r is None:
                raise Unsupported('bool binop ' + op)
            return Sc(z3.simplify(r()), 'bool')
        if ty in ('f32', 'f64'):
            return self.float_binop(op, a, b)
        w = INT_W[ty]
        signed = ty in SIGNED
        ca, cb = a.concrete(), b.concrete()
        if op in ('Shl', 'Shr', 'ShlUnchecked', 'ShrUnchecked'):
            bt = b.t
            if bt.size() < w:
                bt = z3.ZeroExt(w - bt.size(), bt)
            elif bt.size() > w:
                bt = z3.Extract(w - 1, 0, bt)
            bt = bt & z3.BitVecVal(w - 1, w)
            if op.startswith('Shl'):
                r = a.t << bt
            else:
                r = (a.t >> bt) if signed else z3.LShR(a.t, bt)
            return Sc(z3.simplify(r), ty)
        x, y = a.t, b.t
        if x.size() != y.size():
            raise Unsupported('binop %s width mismatch %s %s' % (op, a, b))
        if op in ('Add', 'AddUnchecked'):
            return Sc(z3.simplify(x + y), ty)
        if op in ('Sub', 'SubUnchecked'):
            return Sc(z3.simplify(x - y), ty)
        if op in ('Mul', 'MulUnchecked'):
            return Sc(z3.simplify(x * y), ty)
        if op == 'Div':
            return Sc(z3.simplify(x / y if signed else z3.UDiv(x, y)), ty)
        if op == 'Rem':
            return Sc(z3.simplify(z3.SRem(x, y) if signed else z3.URem(x, y)), ty)
        if op == 'BitAnd':
            return Sc(z3.simplify(x & y), ty)
        if op == 'BitOr':
            return Sc(z3.simplify(x | y), ty)
        if op == 'BitXor':
            return Sc(z3.simplify(x ^ y), ty)
        if op in ('Eq', 'Ne', 'Lt', 'Le', 'Gt', 'Ge'):
            r = {'Eq': lambda: x == y, 'Ne': lambda: x != y,
                 'Lt': lambda: (x < y) if signed else z3.ULT(x, y), 'Le': lambda: (x <= y) if signed else z3.ULE(x, y),
                 'Gt': lambda: (x > y) if signed else z3.UGT(x, y), 'Ge': lambda: (x >= y) if signed else z3.UGE(x, y)}[op]()
            return Sc(z3.simplify(r), 'bool')
        if op in ('AddWithOverflow', 'SubWithOverflow', 'MulWithOverflow'):
            ext = (lambda t, k: z3.SignExt(k, t)) if signed else (lambda t, k: z3.ZeroExt(k, t))
            k = w if op == 'MulWithOverflow' else 1
            X, Y = ext(x, k), ext(y, k)
            full = X + Y if op[0] == 'A' else (X - Y if op[0] == 'S' else X * Y)
            res = z3.Extract(w - 1, 0, full)
            ov = ext(res, k) != full
            return Struct([Sc(z3.simplify(res), ty), Sc(z3.simplify(ov), 'bool')])
        if op == 'Cmp':
            lt = (x < y) if signed else z3.ULT(x, y)
            return Enum('Ordering', None, alts=[(z3.simplify(lt), 'Less', []), (z3.simplify(x == y), 'Equal', []),
                                                 (z3.simplify(z3.And(z3.Not(lt), x != y)), 'Greater', [])])
        raise Unsupported('binop ' + op)

    def float_binop(self, op, a, b):
        x, y = to_fp(a), to_fp(b)
        if op in ('Add', 'Sub', 'Mul', 'Div'):
            r = {'Add': z3.fpAdd, 'Sub': z3.fpSub, 'Mul': z3.fpMul, 'Div': z3.fpDiv}[op](RNE, x, y)
            return from_fp(r, a.ty)
        r = {'Eq': z3.fpEQ, 'Lt': z3.fpLT, 'Le': z3.fpLEQ, 'Gt': z3.fpGT, 'Ge': z3.fpGEQ}.get(op)
        if r is not None:
            return Sc(z3.simplify(r(x, y)), 'bool')
        if op == 'Ne':
            return Sc(z3.simplify(z3.Not(z3.fpEQ(x, y))), 'bool')
        raise Unsupported('float binop ' + op)

    def unop(self, op, a):
        if op == 'Not':
            if a.ty == 'bool':
                return Sc(z3.simplify(z3.Not(a.t)), 'bool')
            return Sc(z3.simplify(~a.t), a.ty)
        if op == 'Neg':
            if a.ty in ('f32', 'f64'):
                return from_fp(z3.fpNeg(to_fp(a)), a.ty)
            return Sc(z3.simplify(-a.t), a.ty)
        if op == 'PtrMetadata':
            if isinstance(a, SliceRef):
                return mk_int(a.n, 'usize')
            if isinstance(a, StrV) and a.data is not None:
                return mk_int(len(a.data), 'usize')
            raise Unsupported('PtrMetadata of %r' % (a,))
        raise Unsupported('unop ' + op)

    def cast(self, v, ty, kind):
        ty = ty.strip()
        if kind.startswith('PointerCoercion'):
            if 'Unsize' in kind:
                return self.unsize(v, ty)
            return v
        if kind in ('PtrToPtr', 'FnPtrToPtr', 'Transmute', 'PointerExposeProvenance', 'PointerWithExposedProvenance', 'Subtype'):
            if kind == 'Transmute' and isinstance(v, Sc):
                tt = last_seg(ty)
                if tt in INT_W and INT_W[tt] == v.t.size():
                    return Sc(v.t, tt)
                raise Unsupported('transmute %s -> %s' % (v.ty, ty))
            return v
        if not isinstance(v, Sc):
            if isinstance(v, Enum) and kind == 'IntToInt':
                # fieldless enum as integer
                self.force(v)
                return mk_int(self.prog.disc(v.ename, v.variant), ty)
            raise Unsupported('cast %s of %r' % (kind, v))
        if kind == 'IntToInt':
            if v.ty == 'bool':
                w = INT_W[ty]
                return Sc(z3.simplify(z3.If(v.t, z3.BitVecVal(1, w), z3.BitVecVal(0, w))), ty)
            sw, dw = v.t.size(), INT_W[ty]
            if dw == sw:
                return Sc(v.t, ty)
            if dw < sw:
                return Sc(z3.simplify(z3.Extract(dw - 1, 0, v.t)), ty)
            ext = z3.SignExt if v.ty in SIGNED else z3.ZeroExt
            return Sc(z3.simplify(ext(dw - sw, v.t)), ty)
        if kind == 'IntToFloat':
            sort = FP32 if ty == 'f32' else FP64
            if v.ty == 'bool':
                raise Unsupported('bool to float')
            r = z3.fpSignedToFP(RNE, v.t, sort) if v.ty in SIGNED else z3.fpUnsignedToFP(RNE, v.t, sort)
            return from_fp(r, ty)
        if kind == 'FloatToFloat':
            return from_fp(z3.fpFPToFP(RNE, to_fp(v), FP32 if ty == 'f32' else FP64), ty)
        if kind == 'FloatToInt':
            # Rust `as`: saturating, NaN -> 0, truncation toward zero
            w = INT_W[ty]
            x = to_fp(v)
            sort = FP32 if v.ty == 'f32' else FP64
            signed = ty in SIGNED
            lo, hi = (-(1 << (w - 1)), (1 << (w - 1)) - 1) if signed else (0, (1 << w) - 1)
            conv = z3.fpToSBV(z3.RTZ(), x, z3.BitVecSort(w)) if signed else z3.fpToUBV(z3.RTZ(), x, z3.BitVecSort(w))
            lo_fp = z3.FPVal(float(lo), sort)
            hi_fp = z3.FPVal(float(hi + 1), sort)       # first value that does not fit
            r = z3.If(z3.fpIsNaN(x), z3.BitVecVal(0, w),
                      z3.If(z3.fpLEQ(x, lo_fp), z3.BitVecVal(lo & ((1 << w) - 1), w),
                            z3.If(z3.fpGEQ(x, hi_fp), z3.BitVecVal(hi, w), conv)))
            return Sc(z3.simplify(r), ty)
        raise Unsupported('cast kind ' + kind)

    def unsize(self, v, ty):
        if isinstance(v, Ptr):
            t = v.load()
            if isinstance(t, ArrayV):
                return SliceRef(v, 0, len(t.items))
            if isinstance(t, VecM):
                return SliceRef(v, 0, len(t.items))
            return v            # &T -> &dyn Trait, Box<T> -> Box<dyn ..>
        return v

    # ------------------------------------------------------------------ rvalues
    def rvalue(self, fr, r):
        k = r[0]
        if k == 'use':
            return self.operand(fr, r[1])
        if k == 'ref':
            lv = self.eval_place(fr, r[2])
            if isinstance(lv, SliceView):
                return lv.sl
            v = lv.load()
            if isinstance(v, StrV) and r[2][0] == 'deref':
                return v                    # &*str
            return lv
        if k == 'binop':
            return self.binop(r[1], self.operand(fr, r[2]), self.operand(fr, r[3]))
        if k == 'unop':
            return self.unop(r[1], self.operand(fr, r[2]))
        if k == 'cast':
            return self.cast(self.operand(fr, r[1]), r[2], r[3])
        if k == 'discriminant':
            v = self.load_place(fr, r[1])
            if isinstance(v, Enum):
                self.force(v)
                return mk_int(self.prog.disc(v.ename, v.variant), 'isize')
            d = self.models.discriminant(self, v)
            if d is not None:
                return d
            raise Unsupported('discriminant of %r in %s' % (v, fr.fn.name))
        if k == 'len':
            return mk_int(self.len_of(self.eval_place(fr, r[1])), 'usize')
        if k == 'repeat':
            n = self.count_const(fr, r[2])
            v = self.operand(fr, r[1])
            return ArrayV([copy_val(v) for _ in range(n)])
        if k == 'array':
            return ArrayV([self.operand(fr, x) for x in r[1]])
        if k == 'tuple':
            return Struct([self.operand(fr, x) for x in r[1]])
        if k == 'closure':
            cm = re.match(r'\{closure@([^:}]+:\d+:\d+)', r[1])
            return Closure(cm.group(1), [self.operand(fr, x) for x in r[2]])
        if k == 'adt':
            return self.aggregate(fr, r[1], [self.operand(fr, x) for _, x in r[2]])
        if k == 'nullop':
            raise Unsupported('nullop ' + r[1])
        if k == 'shallow_box':
            return self.operand(fr, r[1])
        raise Unsupported('rvalue ' + k)

    def count_const(self, fr, t):
        t = t.strip()
        if t.isdigit():
            return int(t)
        m = re.fullmatch(r'(?:const )?(\d+)_usize', t)
        if m:
            return int(m.group(1))
        v = self.const(fr, t[6:] if t.startswith('const ') else t)
        c = v.concrete()
        if c is None:
            raise Unsupported('array length ' + t)
        return c

    def aggregate(self, fr, path, vals):
        segs = self.prog.split_path(path)
        segs = [s for s in segs if not (s.startswith('<') and not s.startswith('<impl'))]
        names = [strip_generics(s).strip() for s in segs]
        if len(names) >= 2 and names[-2] in self.prog.enums and names[-1] in self.prog.enums[names[-2]]:
            return Enum(names[-2], names[-1], vals)
        m = self.models.aggregate(self, names, vals)
        if m is not None:
            return m
        if len(names) == 1 and not vals and names[0] not in self.prog.structs:
            owners = [e for e, vs in self.prog.enums.items() if names[0] in vs]
            if len(owners) == 1:
                return Enum(owners[0], names[0], [])       # variant printed without its enum path (e.g. `Interrupted`)
        return Struct(vals, names[-1])

    # ------------------------------------------------------------------ execution
    def call_fn(self, fn, args, gen_consts=()):
        self.stats.fns_interpreted[fn.name] = self.stats.fns_interpreted.get(fn.name, 0) + 1
        fr = Frame(fn)
        fr.gen_consts = gen_consts
        prev_fn = getattr(self, 'cur_fn', None)
        if not fn.promoted:
            self.cur_fn = fn
        for (p, _), a in zip(fn.params, args):
            fr.cells[p] = Cell(a)
        self.depth += 1
        if self.depth > 200:
            raise BoundExceeded('call depth')
        try:
            bb = 'bb0'
            while True:
                blk = fn.blocks.get(bb)
                if blk is None:
                    raise Unsupported('missing block %s in %s' % (bb, fn.name))
                self.stats.blocks.add((fn.name, bb))
                nxt = None
                for st in blk:
                    self.steps += 1
                    if self.steps > self.max_steps:
                        raise BoundExceeded('step bound %d' % self.max_steps)
                    try:
                        nxt = self.exec(fr, st)
                    except PanicPath as pp:
                        if getattr(pp, 'where', None) is None:
                            pp.where = '%s %s' % (fn.name.split('>::')[-1][-50:], bb)      # innermost repository frame
                        raise
                    except Unsupported as u:
                        if not getattr(u, 'located', False):
                            u.located = True
                            u.args = ('%s [in %s %s: %s]' % (u.args[0] if u.args else '', fn.name[-60:], bb, str(st)[:300]),)
                        raise
                    if nxt is not None:
                        break
                if nxt is None:
                    raise Unsupported('fell off block %s of %s' % (bb, fn.name))
                if nxt == '$return':
                    c = fr.cells.get('_0')
                    return c.v if c is not None and c.v is not None else Unit()
                bb = nxt
        finally:
            self.depth -= 1
            self.cur_fn = prev_fn

    def exec(self, fr, st):
        k = st[0]
        if k == 'assign':
            self.site = st[3] or self.site
            v = self.rvalue(fr, st[2])
            self.store_place(fr, st[1], v)
            return None
        if k == 'call':
            self.site = st[5] or self.site
            args = [self.operand(fr, a) for a in st[3]]
            res = self.call(fr, st[2], args, st[1])
            if st[4] is None:
                raise Unsupported('diverging call returned: ' + st[2])
            self.store_place(fr, st[1], res)
            return st[4]
        if k == 'switch':
            v = self.operand(fr, st[1])
            return self.switch(v, st[2])
        if k == 'goto':
            return st[1]
        if k == 'return':
            return '$return'
        if k == 'drop':
            self.site = st[3] or self.site
            lv = self.eval_place(fr, st[1])
            v = lv.load() if isinstance(lv, Ptr) else None
            if v is not None and v is not MOVED:
                self.models.drop_value(self, v)
            return st[2]
        if k == 'assert':
            if 'overflow' in st[3] and not getattr(self.models, 'overflow_panics', False):
                # release-profile semantics: arithmetic wraps (the checked-op result tuple already holds the wrapped
                # value); dev-profile overflow panics are outside the claims and would not replay on the release build
                return st[4]
            c = self.operand(fr, st[1])
            cond = z3.Not(c.t) if st[2] else c.t
            if self.branch(cond):
                return st[4]
            raise PanicPath('assert failed: ' + st[3], st[5] or self.site)
        if k == 'setdisc':
            lv = self.eval_place(fr, st[1])
            v = lv.load()
            if isinstance(v, Enum):
                v.variant = self.prog.variant_of(v.ename, st[2])
                return None
            raise Unsupported('SetDiscriminant on %r' % (v,))
        if k == 'assume':
            return None
        if k == 'unreachable':
            raise Unsupported('reached `unreachable` in %s (encoder error or UB)' % fr.fn.name)
        if k == 'resume':
            raise Unsupported('reached unwind resume')
        if k == 'unparsed':
            raise Unsupported('unparsed MIR statement in %s: %s' % (fr.fn.name, st[1][:160]))
        raise Unsupported('statement ' + k)

    def switch(self, v, targets):
        other = None
        keyed = []
        for key, bb in targets:
            if key == 'otherwise':
                other = bb
            else:
                keyed.append((int(key), bb))
        if isinstance(v, Enum):
            raise Unsupported('switch on enum value')
        c = v.concrete()
        if v.ty == 'bool':
            if c is None:
                t = self.branch(v.t)
            else:
                t = c
            val = 1 if t else 0
            for key, bb in keyed:
                if key == val:
                    return bb
            return other
        if c is not None:
            sc = v.signed_concrete()
            for key, bb in keyed:
                if key == c or key == sc:
                    return bb
            if other is None:
                raise Unsupported('switch without matching target')
            return other
        w = v.t.size()
        conds = [v.t == z3.BitVecVal(key & ((1 << w) - 1), w) for key, _ in keyed]
        if other is not None:
            conds.append(z3.And([z3.Not(c_) for c_ in conds]) if conds else z3.BoolVal(True))
        i = self.choose(conds, 'switch')
        return keyed[i][1] if i < len(keyed) else other

    # ------------------------------------------------------------------ calls
    def call(self, fr, callee, args, dest_place=None):
        self.stats.callees[callee] = self.stats.callees.get(callee, 0) + 1
        if callee.startswith('<{closure@') and re.search(r' as Fn(Mut|Once)?<.*>>::call(_mut|_once)?$', callee):
            # closure value invoked through the Fn* traits: (closure, (args...))
            tup = args[1] if len(args) > 1 else None
            return self.call_value(args[0], list(tup.f) if isinstance(tup, Struct) else [])
        key = (callee, fr.fn.file)
        h = self.callee_cache.get(key)
        if h is None:
            mh = self.models.lookup(callee)
            f = None
            if mh is None or mh[3] != 'override':
                f = self.prog.resolve(callee, fr.fn)
            if mh is not None and f is not None:
                # both exist: hand-written repository code is interpreted, derived impls use the (equivalent) model
                ii = self.prog.impl_info(f.impl_loc) if f.impl_loc is not None else None
                derived = ii is not None and not ii[2].startswith('impl') and ii[1] in ('Clone', 'PartialEq', 'Eq', 'Copy')
                h = ('model', mh) if derived else ('mir', f)
            elif mh is not None:
                h = ('model', mh)
            elif f is not None:
                h = ('mir', f)
            else:
                h = ('none', None)
            self.callee_cache[key] = h
        if h[0] == 'model':
            name, fnc, m, _prec = h[1]
            self.stats.models_used[name] = self.stats.models_used.get(name, 0) + 1
            dest_ty = fr.fn.locals.get(dest_place[1]) if dest_place and dest_place[0] == 'local' else None
            return fnc(self, m, args, callee, dest_ty)
        if h[0] == 'mir':
            # const generic arguments (`::<16>`) become the callee's const parameters
            gm = re.search(r'::<([^<>]*)>$', callee)
            gens = tuple(int(x) for x in re.findall(r'(?<![\w])(\d+)(?![\w])', gm.group(1))) if gm else ()
            if not gens and fr.gen_consts and re.search(r'::<[A-Z]\w*>$', callee):
                gens = fr.gen_consts                      # forwarded parameter (`::<N>`)
            return self.call_fn(h[1], args, gens)
        raise Unsupported('unmodelled callee: ' + callee)

    def call_value(self, f, args):
        """Call a closure / fn item value with already evaluated args (FnOnce/FnMut/Fn::call* and combinators)."""
        if isinstance(f, Ptr):
            f = f.load()
        if isinstance(f, Closure):
            fn = self.prog.closure(f.loc)
            # closure param 0 is the closure itself: by value, or by reference for Fn/FnMut closures
            p0 = fn.params[0][1] if fn.params else ''
            me = Ptr(Cell(f)) if p0.startswith('&') else f
            return self.call_fn(fn, [me] + list(args))
        if isinstance(f, FnItem):
            segs = [strip_generics(x).strip() for x in self.prog.split_path(f.name) if not x.startswith('<')]
            if len(segs) >= 2 and segs[-2] in self.prog.enums and segs[-1] in self.prog.enums[segs[-2]]:
                return Enum(segs[-2], segs[-1], list(args))       # tuple-variant constructor used as a function
            fake = Frame(parse.Fn('?', '?', [], '?'))
            fake.fn.file = None
            return self.call(fake, f.name, list(args))
        raise Unsupported('call of non-function value %r' % (f,))
