"""I/O contract models: Read for a cursor over symbolic bytes (with optional short-read schedule), Take, Write into a
Vec<u8> or a failing sink, String::from_utf8 (exact UTF-8 validity formula)."""
import z3
from .values import *
from .models import deref


class CursorV:
    """reader over a list of Sc u8 (concrete length).  mode 'oneshot' | 'choppy' (every read() returns a symbolic
    count in 1..=available, or Interrupted)"""

    def __init__(self, data, mode='oneshot', max_reads=8):
        self.data, self.pos, self.mode = list(data), 0, mode
        self.reads, self.max_reads = 0, max_reads
        self.interrupts = 0
        self.log = []

    def remaining(self):
        return len(self.data) - self.pos


class TakeV:
    def __init__(self, inner, limit):
        self.inner, self.limit = inner, limit       # limit: Sc u64


class ChainV:
    """std::io::Chain: the first reader until it reports end of input, then the second"""

    def __init__(self, first, second):
        self.first, self.second, self.done_first = first, second, False


class BufWriterV:
    """std::io::BufWriter: bytes are held back until flush / drop; the flush at drop ignores errors (std behaviour)"""

    def __init__(self, inner, cap=8192):
        self.inner, self.buf, self.cap = inner, [], cap


class SinkV:
    """writer that accepts `limit` bytes and then fails every write"""

    def __init__(self, limit=None):
        self.out, self.limit, self.failed = [], limit, False


def io_error(kind='Other'):
    return Opaque('io::Error', kind)


class SliceReader:
    """`impl Read for &[u8]`: reading advances the slice stored behind the `&mut &[u8]`"""
    mode = 'oneshot'

    def __init__(self, ptr):
        self.ptr = ptr

    def remaining(self):
        return self.ptr.load().n

    def take_bytes(self, n):
        sl = self.ptr.load()
        items = sl.items()[:n]
        self.ptr.store(SliceRef(sl.ptr, sl.start + n, sl.n - n))
        return items


def as_reader(v):
    p = v
    while isinstance(p, Ptr):
        t = p.load()
        if isinstance(t, SliceRef):
            return SliceReader(p)
        p = t
    return p


def utf8_valid(bs):
    """z3 Bool: the byte list (Sc u8, concrete length) is well-formed UTF-8 (RFC 3629: no overlongs, no surrogates, <= U+10FFFF)"""
    n = len(bs)
    t = [x.t for x in bs]

    def rng(b, lo, hi):
        return z3.And(z3.UGE(b, lo), z3.ULE(b, hi))
    memo = {}

    def ok(i):
        if i == n:
            return z3.BoolVal(True)
        if i in memo:
            return memo[i]
        alts = [z3.And(z3.ULT(t[i], 0x80), ok(i + 1))]
        if i + 1 < n:
            alts.append(z3.And(rng(t[i], 0xC2, 0xDF), rng(t[i + 1], 0x80, 0xBF), ok(i + 2)))
        if i + 2 < n:
            c2 = rng(t[i + 2], 0x80, 0xBF)
            alts.append(z3.And(t[i] == 0xE0, rng(t[i + 1], 0xA0, 0xBF), c2, ok(i + 3)))
            alts.append(z3.And(z3.Or(rng(t[i], 0xE1, 0xEC), rng(t[i], 0xEE, 0xEF)), rng(t[i + 1], 0x80, 0xBF), c2, ok(i + 3)))
            alts.append(z3.And(t[i] == 0xED, rng(t[i + 1], 0x80, 0x9F), c2, ok(i + 3)))
        if i + 3 < n:
            c2, c3 = rng(t[i + 2], 0x80, 0xBF), rng(t[i + 3], 0x80, 0xBF)
            alts.append(z3.And(t[i] == 0xF0, rng(t[i + 1], 0x90, 0xBF), c2, c3, ok(i + 4)))
            alts.append(z3.And(rng(t[i], 0xF1, 0xF3), rng(t[i + 1], 0x80, 0xBF), c2, c3, ok(i + 4)))
            alts.append(z3.And(t[i] == 0xF4, rng(t[i + 1], 0x80, 0x8F), c2, c3, ok(i + 4)))
        memo[i] = z3.Or(alts)
        return memo[i]
    return ok(0)


def register(M):
    def slice_of(buf):
        if isinstance(buf, SliceRef):
            return buf
        if isinstance(buf, Ptr):
            t = buf.load()
            if isinstance(t, (ArrayV, VecM)):
                return SliceRef(buf, 0, len(t.items))
        raise Unsupported('read buffer %r' % (buf,))

    def do_read(ex, r, sl):
        """Read::read semantics of the model reader -> Result<usize>"""
        if isinstance(r, TakeV):
            lim = ex.concretize(r.limit, 0, sl.n + 1, 'Take limit') if r.limit.concrete() is None or r.limit.concrete() <= sl.n else sl.n
            n_max = min(sl.n, lim)
            sub = SliceRef(sl.ptr, sl.start, n_max)
            res = do_read(ex, r.inner, sub)
            ex.force(res)
            if res.variant == 'Ok':
                r.limit = ex.binop('Sub', r.limit, Sc(z3.ZeroExt(0, res.f[0].t), 'u64') if res.f[0].ty == 'u64' else ex.cast(res.f[0], 'u64', 'IntToInt'))
            return res
        if isinstance(r, ChainV):
            if not r.done_first:
                res = ex.force(do_read(ex, r.first, sl))
                if not (res.variant == 'Ok' and res.f[0].concrete() == 0 and sl.n > 0):
                    return res
                r.done_first = True
            return do_read(ex, r.second, sl)
        if isinstance(r, SliceReader):
            n = min(sl.n, r.remaining())
            for i, x in enumerate(r.take_bytes(n)):
                sl.set(i, x)
            return Ok(mk_int(n, 'usize'))
        if not isinstance(r, CursorV):
            raise Unsupported('Read::read on %s' % type(r).__name__)
        avail = min(sl.n, r.remaining())
        if avail == 0:
            return Ok(mk_int(0, 'usize'))
        n = avail
        if r.mode == 'choppy':
            r.reads += 1
            if r.reads > r.max_reads:
                raise Infeasible()                       # outside the stated bound on read() calls per decode
            k = ex.nondet(avail + 1, 'short read')       # 0 = Interrupted, 1..avail bytes
            r.log.append(k)
            if k == 0:
                r.interrupts += 1
                if r.interrupts > 2:
                    raise Infeasible()                   # bounded number of consecutive interruptions
                return Err(io_error('Interrupted'))
            r.interrupts = 0
            n = k
        for i in range(n):
            sl.set(i, r.data[r.pos + i])
        r.pos += n
        return Ok(mk_int(n, 'usize'))

    @M.trait('Read', 'read')
    def _read(ex, args, info):
        return do_read(ex, as_reader(args[0]), slice_of(args[1]))

    @M.trait('Read', 'read_exact')
    def _read_exact(ex, args, info):
        """std's read_exact: contract model -- fills the buffer or fails with UnexpectedEof, independent of how the
        underlying reader splits the data (std retries short reads and Interrupted itself)"""
        r, sl = as_reader(args[0]), slice_of(args[1])
        base = r
        while isinstance(base, TakeV):
            base = base.inner
        saved = getattr(base, 'mode', None)
        if saved is not None:
            base.mode = 'oneshot'
        try:
            got = 0
            while got < sl.n:
                res = ex.force(do_read(ex, r, SliceRef(sl.ptr, sl.start + got, sl.n - got)))
                if res.variant == 'Err':
                    return res
                k = res.f[0].concrete()
                if k == 0:
                    return Err(io_error('UnexpectedEof'))
                got += k
            return Ok(Unit())
        finally:
            if saved is not None:
                base.mode = saved

    @M.trait('Read', 'take')
    def _take(ex, args, info):
        return TakeV(as_reader(args[0]) if not isinstance(args[0], (CursorV, TakeV, SliceReader)) else args[0], args[1])

    @M.trait('Read', 'chain')
    def _chain(ex, args, info):
        def rd(v):
            if isinstance(v, SliceRef):
                return SliceReader(Ptr(Cell(v)))
            return v if isinstance(v, (CursorV, TakeV, SliceReader, ChainV)) else as_reader(v)
        return ChainV(rd(args[0]), rd(args[1]))

    @M.trait('Read', 'by_ref')
    def _by_ref(ex, args, info):
        return args[0]

    @M.trait('Read', ['read_to_end', 'read_to_string'])
    def _read_to_end(ex, args, info):
        r = as_reader(args[0])
        dst = deref(args[1])
        # how many bytes will come: min(limit, remaining) -- the limit may be symbolic: fork over the possibilities
        cur = r
        lim = None
        while isinstance(cur, TakeV):
            lim = cur.limit if lim is None else lim
            cur = cur.inner
        def remaining(x):
            if isinstance(x, ChainV):
                return (0 if x.done_first else remaining(x.first)) + remaining(x.second)
            if isinstance(x, (CursorV, SliceReader)):
                return x.remaining()
            raise Unsupported('read_to_end on %s' % type(x).__name__)

        def take(x, k):
            if isinstance(x, ChainV):
                a = 0 if x.done_first else min(k, remaining(x.first))
                out = take(x.first, a) if a else []
                if k > a:
                    x.done_first = True
                    out = out + take(x.second, k - a)
                return out
            if isinstance(x, SliceReader):
                return x.take_bytes(k)
            out = x.data[x.pos:x.pos + k]
            x.pos += k
            return out
        rem = remaining(cur)
        if lim is None:
            n = rem
        else:
            c = lim.concrete()
            n = min(c, rem) if c is not None else None
            if n is None:
                w = lim.t.size()
                conds = [lim.t == z3.BitVecVal(k, w) for k in range(rem)] + [z3.UGE(lim.t, z3.BitVecVal(rem, w))]
                n = ex.choose(conds, 'Take limit vs. remaining input')
        chunk = take(cur, n)
        if isinstance(r, TakeV):
            r.limit = ex.binop('Sub', r.limit, mk_int(n, r.limit.ty))
        if info.method == 'read_to_string':
            if not isinstance(dst, StrV):
                raise Unsupported('read_to_string into %s' % type(dst).__name__)
            v = utf8_valid(chunk)
            if not ex.branch(v):
                return Err(io_error('InvalidData'))
            dst.data.extend(chunk)
        else:
            dst.items.extend(chunk)
        return Ok(mk_int(n, 'usize'))

    @M.trait('Write', ['write_all', 'write'])
    def _write_all(ex, args, info):
        w = deref(args[0])
        while isinstance(w, Ptr):
            w = w.load()
        src = args[1]
        if isinstance(src, Ptr):
            src = slice_of(src)
        items = src.items() if isinstance(src, SliceRef) else (src.data if isinstance(src, StrV) else None)
        if items is None:
            raise Unsupported('write of %r' % (src,))
        if isinstance(w, BufWriterV):
            w.buf.extend(items)
            if len(w.buf) >= w.cap:
                r = bufwriter_flush(ex, w)
                if r.variant == 'Err':
                    return r
        elif isinstance(w, VecM):
            w.items.extend(items)
        elif isinstance(w, SinkV):
            # a sink with room for `limit` bytes: write() hands out short writes while room is left and fails once it is
            # full; write_all() is std's loop over write() (so it fails as soon as the sink is full)
            room = None if w.limit is None else max(0, w.limit - len(w.out))
            if room is None or len(items) <= room:
                w.out.extend(items)
                return Ok(Unit()) if info.method == 'write_all' else Ok(mk_int(len(items), 'usize'))
            w.out.extend(items[:room])
            if info.method == 'write_all' or room == 0:
                w.failed = True
                return Err(io_error('Other'))
            return Ok(mk_int(room, 'usize'))
        else:
            nm = getattr(w, 'name', type(w).__name__)
            h = ex.prog.resolve('<%s as Write>::%s' % (nm, info.method), None) if isinstance(w, Struct) else None
            wp = args[0]
            while isinstance(wp, Ptr) and isinstance(wp.load(), Ptr):
                wp = wp.load()
            if h is not None:
                return ex.call_fn(h, [wp, args[1]])
            hw = ex.prog.resolve('<%s as Write>::write' % nm, None) if isinstance(w, Struct) and info.method == 'write_all' else None
            if hw is None:
                raise Unsupported('Write::%s on %s' % (info.method, type(w).__name__))
            # std's default write_all: loop over write() until everything is taken; Ok(0) is WriteZero
            sl = src if isinstance(src, SliceRef) else None
            if sl is None:
                raise Unsupported('write_all of a non-slice through a user Write impl')
            done = 0
            while done < sl.n:
                r = ex.force(ex.call_fn(hw, [wp, SliceRef(sl.ptr, sl.start + done, sl.n - done)]))
                if r.variant == 'Err':
                    return r
                k = ex.concretize(r.f[0], 0, sl.n - done + 1, 'bytes written')
                if k == 0:
                    return Err(io_error('WriteZero'))
                done += k
            return Ok(Unit())
        return Ok(Unit()) if info.method == 'write_all' else Ok(mk_int(len(items), 'usize'))

    def inner_write_all(ex, inner, items):
        tgt = inner
        while isinstance(tgt, Ptr):
            tgt = tgt.load()
        if isinstance(tgt, VecM):
            tgt.items.extend(items)
            return Ok(Unit())
        if isinstance(tgt, SinkV):
            room = None if tgt.limit is None else max(0, tgt.limit - len(tgt.out))
            if room is None or len(items) <= room:
                tgt.out.extend(items)
                return Ok(Unit())
            tgt.out.extend(items[:room])
            tgt.failed = True
            return Err(io_error('Other'))
        raise Unsupported('BufWriter over %s' % type(tgt).__name__)

    def bufwriter_flush(ex, w):
        items, w.buf = w.buf, []
        return inner_write_all(ex, w.inner, items) if items else Ok(Unit())
    globals()['bufwriter_flush'] = bufwriter_flush

    @M.path('BufWriter', ['new', 'with_capacity'])
    def _bufwriter_new(ex, args, info):
        if info.method == 'with_capacity':
            c = args[0].concrete()
            return BufWriterV(args[1], c if c is not None else 8192)
        return BufWriterV(args[0])
    M.drop_handlers['BufWriterV'] = lambda ex, v: bufwriter_flush(ex, v)          # errors are discarded, as std does

    @M.trait('Write', 'flush')
    def _flush(ex, args, info):
        w = deref(args[0])
        while isinstance(w, Ptr):
            w = w.load()
        if isinstance(w, BufWriterV):
            return bufwriter_flush(ex, w)
        return Ok(Unit())

    @M.path('String', ['from_utf8', 'from_utf8_lossy'])
    def _from_utf8(ex, args, info):
        v = deref(args[0])
        items = v.items() if isinstance(v, SliceRef) else v.items
        ok = utf8_valid(items)
        if info.method == 'from_utf8_lossy':
            if not ex.branch(ok):
                raise Unsupported('from_utf8_lossy on invalid UTF-8')
            return Enum('Cow', 'Owned', [StrV(list(items), None)])
        if ex.branch(ok):
            return Ok(StrV(list(items), None))
        return Err(Opaque('FromUtf8Error', VecM(list(items))))

    @M.rx(r'^((?:std|core)::str::from_utf8|from_utf8)$', 'str::from_utf8')
    def _str_from_utf8(ex, m, args, callee, dest):
        v = args[0]
        items = v.items() if isinstance(v, SliceRef) else deref(v).items
        if ex.branch(utf8_valid(items)):
            return Ok(StrV(list(items), None))
        return Err(Opaque('Utf8Error'))
