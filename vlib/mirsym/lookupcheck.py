"""C16 M20: the lookups the codecs perform on a reflection database, decided on the real MIR over databases that have the *shapes*
the bundled database has (chain depths, serializes-as target kinds, inherited defaults) - the shapes are recomputed from the real
database (tools/dbdump) at run time, so the obligations follow the data.

  chain     ReflectionDatabase::superclasses / superclasses_iter / has_superclass on a chain of depth d
  default   ReflectionDatabase::find_default_property: nearest class on the chain that defines the default wins; None when nobody does
  ser       rbx_binary find_property_descriptors for a canonical property whose serialization is SerializesAs(t), for every kind of
            target descriptor occurring in the real database, reached through the canonical name, the target name and an alias
"""
import time, os, json
import z3
from .values import *
from .interp import Exec, Stats
from .rbx_models import World
from .models import deref
from . import bincheck as Bc


def class_ptr(db, H, name):
    for k, c in db.f[H.prog.field('ReflectionDatabase', 'classes')].entries:
        if k.concrete_bytes() == name.encode():
            return Ptr(c)
    raise Unsupported('class %s not in the harness database' % name)


def names_of(H, lst):
    out = []
    for p in lst:
        cd = deref(p)
        out.append(cd.f[H.prog.field('ClassDescriptor', 'name')].concrete_bytes().decode())
    return out


def run_case(H, ex, case):
    what = case['what']
    P = H.prog
    if what == 'chain':
        d = case['depth']
        names = ['C%d' % i for i in range(d)]               # C0 = leaf ... C{d-1} = root
        db = H.database({n: dict(superclass=(names[i + 1] if i + 1 < d else None), properties={}) for i, n in enumerate(names)})
        leaf = class_ptr(db, H, names[0])
        f = P.resolve('ReflectionDatabase::superclasses')
        r = ex.force(ex.call_fn(f, [Ptr(Cell(db)), leaf]))
        if r.variant != 'Some':
            raise Violation('C16.lookup[superclasses_none:%d]: superclasses() returns None for a chain of %d classes that ends at a root' % (d, d))
        got = names_of(H, r.f[0].items)
        if got != names:
            raise Violation('C16.lookup[superclasses:%d]: superclasses() = %s, the chain is %s' % (d, got, names))
        fi = P.resolve('ReflectionDatabase::superclasses_iter')
        it = ex.call_fn(fi, [Ptr(Cell(db)), leaf])
        seen = []
        nxt = ex.models.as_iter(ex, it)
        for _ in range(d + 2):
            x = ex.force(nxt.nextf(ex))
            if x.variant == 'None':
                break
            seen.append(x.f[0])
        if names_of(H, seen) != names:
            raise Violation('C16.lookup[superclasses_iter:%d]: superclasses_iter() yields %s, the chain is %s' % (d, names_of(H, seen), names))
        fh = P.resolve('ReflectionDatabase::has_superclass')
        for i, n in enumerate(names):
            b = ex.call_fn(fh, [Ptr(Cell(db)), leaf, class_ptr(db, H, n)])
            if not ex.branch(b.t if isinstance(b, Sc) else b):
                raise Violation('C16.lookup[has_superclass:%d]: has_superclass(%s, %s) is false' % (d, names[0], n))
        if d > 1:
            b = ex.call_fn(fh, [Ptr(Cell(db)), class_ptr(db, H, names[-1]), leaf])
            if ex.branch(b.t):
                raise Violation('C16.lookup[has_superclass:%d]: the root claims the leaf as a superclass' % d)
        return 'ok'
    if what == 'default':
        d, at = case['depth'], case['at']                   # levels (0 = leaf) that define the default, each with its own value
        names = ['C%d' % i for i in range(d)]
        spec = {}
        for i, n in enumerate(names):
            spec[n] = dict(superclass=(names[i + 1] if i + 1 < d else None), properties={'P': dict(variant_type='Int32')} if i == d - 1 else {},
                           # filler: classes that do not define P still record other defaults (as every class of the bundled
                           # database does: Archivable, UniqueId, ...), so "has some defaults" must not stop the walk
                           defaults=({'P': ('Int32', {'v': 100 + i})} if i in at else ({'Q': ('Int32', {'v': 7})} if case.get('filler') else {})))
        db = H.database(spec)
        f = P.resolve('ReflectionDatabase::find_default_property')
        for start in range(d):
            r = ex.force(ex.call_fn(f, [Ptr(Cell(db)), class_ptr(db, H, names[start]), StrV.lit(b'P')]))
            want = next((i for i in range(start, d) if i in at), None)
            if want is None:
                if r.variant != 'None':
                    raise Violation('C16.lookup[default_spurious]: find_default_property finds a default nobody on the chain defines')
                continue
            if r.variant != 'Some':
                raise Violation('C16.lookup[default_missing:%d:%d]: find_default_property(%s) = None, %s defines the default (chain depth %d)' % (want - start, d, names[start], names[want], d))
            v = deref(r.f[0])
            got = v.f[0].concrete() if isinstance(v, Enum) and v.variant == 'Int32' else None
            if got != 100 + want:
                raise Violation('C16.lookup[default_wrong:%d]: find_default_property(%s) returns the default of level %s, the nearest definition is %s' % (d, names[start], None if got is None else got - 100, names[want]))
        return 'ok'
    if what == 'ser':
        shape = case['shape']
        # class K: canonical "Canon" SerializesAs "Target"; the target descriptor has the kind the real database shows
        props = {'Canon': dict(variant_type='Float32', kind=('Canonical', ('SerializesAs', 'Target'))), 'Other': dict(variant_type='Float32'),
                 'AliasOfCanon': dict(variant_type='Float32', kind=('Alias', 'Canon'))}
        if shape == 'alias_back':
            props['Target'] = dict(variant_type='Float32', kind=('Alias', 'Canon'))
        elif shape == 'alias_other':
            props['Target'] = dict(variant_type='Float32', kind=('Alias', 'Other'))
        elif shape.startswith('canonical:'):
            props['Target'] = dict(variant_type='Float32', kind=('Canonical', shape.split(':')[1]))
        else:
            raise Unsupported('serializes-as target shape ' + shape)
        db = H.database({'Base': dict(properties={}), 'K': dict(superclass='Base', properties=props), 'Sub': dict(superclass='K', properties={})})
        f = P.resolve('find_property_descriptors')
        if f is None or 'rbx_binary' not in (f.file or ''):
            f = next((x for x in P.fns if x.name.endswith('find_property_descriptors') and (x.file or '').startswith('rbx_binary')), f)
        di = {n: P.field('PropertyDescriptors', n) for n in ('canonical', 'serialized')}
        pname = P.field('PropertyDescriptor', 'name')
        for cls in ('K', 'Sub'):
            for via in ('Canon', 'AliasOfCanon'):
                try:
                    r = ex.force(ex.call_fn(f, [Ptr(Cell(db)), StrV.lit(cls.encode()), StrV.lit(via.encode())]))
                except PanicPath as p:
                    raise Violation('C16.lookup[descriptors_panic:%s]: find_property_descriptors(%s, %s) panics: %s' % (shape, cls, via, p.msg))
                if r.variant != 'Some':
                    raise Violation('C16.lookup[descriptors_none:%s]: find_property_descriptors(%s, %s) = None' % (shape, cls, via))
                pd = r.f[0]
                can = deref(pd.f[di['canonical']]).f[pname].concrete_bytes()
                ser = ex.force(pd.f[di['serialized']])
                if can != b'Canon':
                    raise Violation('C16.lookup[descriptors_canonical:%s]: canonical descriptor of %s.%s is %r' % (shape, cls, via, can))
                if ser.variant != 'Some' or deref(ser.f[0]).f[pname].concrete_bytes() != b'Target':
                    raise Violation('C16.lookup[descriptors_serialized:%s]: the serializes-as target of %s.Canon (reached through %s) is not resolved to the descriptor named Target (target kind in the database: %s)' % (shape, cls, via, shape))
        return 'ok'
    raise Unsupported('case ' + what)


def explore(prog, case, stats=None, budget_s=300, models=None):
    H = Bc.BinHarness(prog)
    stats = stats or Stats()
    M = models or Bc.make_models(prog)
    res = dict(paths=0, ok=0, err=0, infeasible=0, violations=[], unsupported=None)
    work, t0 = [[]], time.time()
    while work:
        dec = work.pop()
        ex = Exec(prog, M, dec, stats)
        ex.world = World()
        try:
            run_case(H, ex, case)
            res['paths'] += 1
            res['ok'] += 1
            stats.paths += 1
        except Infeasible:
            res['infeasible'] += 1
        except (Violation, PanicPath) as v:
            res['paths'] += 1
            label = v.label if isinstance(v, Violation) else 'C16.lookup[panic]: a database lookup panics: %s at %s' % (v.msg, v.site)
            ok_, path_, detail_ = confirm(case, label)
            res['violations'].append(dict(label=label, case=dict(case), confirmed=ok_, replay=path_, replay_detail=detail_))
            break
        except (Unsupported, BoundExceeded) as u:
            res['unsupported'] = '%s: %s' % (type(u).__name__, u)
            break
        work.extend(ex.pending)
        if time.time() - t0 > budget_s:
            res['unsupported'] = 'time budget exceeded'
            break
    return res


def confirm(case, label):
    """native: the same lookups through the real crates on the real database (tools/replayer lookups): every class chain, every
    inherited default, every serializes-as target"""
    from .. import common as C, gen
    rc, out, _ = C.run([gen.tool('replayer'), 'lookups'], timeout=300)
    os.makedirs(C.REPLAYS, exist_ok=True)
    path = os.path.join(C.REPLAYS, 'C16_lookups.json')
    try:
        r = json.loads(out.strip().split('\n')[-1])
    except Exception:
        r = {}
    ok = 'PANIC' in out or any(r.get(k) for k in ('chain_failures', 'default_failures', 'serialized_failures'))
    json.dump(dict(property='C16', label=label, native=out[-1500:], confirmed=ok, how='tools/replayer lookups (real database, real lookups, compared with a direct walk of the database maps)'), open(path, 'w'), indent=1)
    return ok, path, 'native: ' + out.strip()[-300:]
