"""Boundary-constant mining: integer constants that the code under check compares input-derived sizes with (caps, limits,
thresholds) are read off the MIR, so that size-dependent obligations also run at those boundaries (c, c+1) and not only at the
small default sizes.  A cap introduced by a change therefore moves the bound with it."""
import re

_LIT = re.compile(r"'(\d+)_(?:u8|u16|u32|u64|usize|i32|i64|isize)'")
_NAMED = re.compile(r"\('const', '(?:[\w:<>& ]+::)?([A-Z][A-Z0-9_]{2,})'\)")


def _literals(fn):
    out = set()
    for b in fn.blocks.values():
        for st in b:
            for m in _LIT.finditer(repr(st)):
                out.add(int(m.group(1)))
    return out


def mined_sizes(prog, files, lo=16, hi=8192):
    """constants in (lo, hi] used by functions defined in `files` (suffix match), directly or through a named const item"""
    out, named = set(), set()
    for f in prog.fns:
        if not f.file or not any(f.file.endswith(x) for x in files):
            continue
        out |= _literals(f)
        for b in f.blocks.values():
            for st in b:
                named |= set(_NAMED.findall(repr(st)))
    for (cr, nm), f in prog.by_full.items():
        if nm.startswith('const ') and 'promoted[' not in nm and nm[6:].split('::')[-1] in named:
            out |= _literals(f)
    return sorted(c for c in out if lo < c <= hi)
