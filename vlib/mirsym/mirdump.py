"""Regenerate MIR text of /repo's crates (nightly rustc, -Zunpretty=mir) into /verif/.build/mir.  Nothing under /repo
is written: rustc is forced to re-emit by deleting the crate's fingerprint in our private target dir."""
import glob, os, shutil, time
from .. import common as C

MIR_DIR = os.path.join(C.BUILD, 'mir')
TARGET = os.path.join(MIR_DIR, 'target')
CRATES = ['rbx_types', 'rbx_dom_weak', 'rbx_reflection', 'rbx_binary', 'rbx_xml']


def dump(crate, features=None):
    os.makedirs(MIR_DIR, exist_ok=True)
    for d in glob.glob(os.path.join(TARGET, 'debug', '.fingerprint', crate + '-*')):
        shutil.rmtree(d, ignore_errors=True)
    out = os.path.join(MIR_DIR, crate + '.mir')
    cmd = ['cargo', '+nightly', 'rustc', '--offline', '--lib', '--target-dir', TARGET]
    if features:
        cmd += ['--features', features]
    cmd += ['--', '-Zunpretty=mir', '-Zmir-include-spans=yes', '-C', 'debug-assertions=off', '-C', 'overflow-checks=on', '-Awarnings']
    t = time.time()
    env = C.env_offline()
    import subprocess
    with open(out + '.tmp', 'w') as fo, open(os.path.join(MIR_DIR, crate + '.err'), 'w') as fe:
        p = subprocess.run(cmd, cwd=os.path.join(C.REPO, crate), env=env, stdout=fo, stderr=fe, timeout=1800)
    if p.returncode != 0 or os.path.getsize(out + '.tmp') < 1000:
        raise RuntimeError('MIR dump of %s failed (rc=%d): %s' % (crate, p.returncode, open(os.path.join(MIR_DIR, crate + '.err')).read()[-1500:]))
    os.replace(out + '.tmp', out)
    return out, time.time() - t
