"""Contract models for callees that leave the repository (std / hashbrown / ahash / ustr ...).
Every model used by a run is listed in evidence (stats.models_used): they are the trusted base of engine M."""
import re, itertools
import z3
from .values import *
from . import parse
from .program import last_seg, strip_generics, Program


def head_name(ty):
    t = ty.strip()
    while t.startswith('&'):
        t = t[1:].strip()
        if t.startswith('mut '):
            t = t[4:].strip()
        t = re.sub(r"^'\w+\s+", '', t)
    if t.startswith('['):
        return 'array' if ';' in t and parse.find_matching(t, 0) == len(t) - 1 and re.search(r';[^\]]*\]$', t) else 'slice'
    if t.startswith('('):
        return 'tuple'
    if t == 'str':
        return 'str'
    if t.startswith('dyn '):
        return 'dyn'
    return last_seg(t)


class Info:
    __slots__ = ('callee', 'self_ty', 'trait', 'targs', 'method', 'dest_ty', 'generics', 'self_ty_head')


def normalise(callee):
    """-> Info with self_ty head, trait, method."""
    c = callee.strip()
    i = Info()
    i.callee = c
    i.trait = i.targs = None
    i.generics = ''
    if c.startswith('<') and not c.startswith('<impl'):
        j = parse.find_matching(c, 0)
        inner, rest = c[1:j], c[j + 1:].lstrip(':')
        depth, cut = 0, None
        for k, ch in enumerate(inner):
            if ch in '<({[':
                depth += 1
            elif ch in '>)}]' and not (ch == '>' and k > 0 and inner[k - 1] in '-='):
                depth -= 1
            elif depth == 0 and inner.startswith(' as ', k):
                cut = k
        if cut is not None:
            i.self_ty = inner[:cut]
            tf = inner[cut + 4:]
            i.trait = last_seg(tf)
            m = re.search(r'<(.*)>', tf, re.S)
            i.targs = m.group(1) if m else None
        else:
            i.self_ty = inner
        segs = Program.split_path(rest)
        i.method = strip_generics(segs[0]).strip()
        i.generics = '::'.join(segs[1:]) if len(segs) > 1 else (segs[0][len(i.method):])
        i.self_ty_head = head_name(i.self_ty)
        return i
    segs = Program.split_path(c)
    names = []
    gen = ''
    for s in segs:
        if s.startswith('<impl '):
            inner = s[6:-1].strip()
            names.append(head_name(inner))
        elif s.startswith('<'):
            gen = s
        else:
            names.append(strip_generics(s).strip())
    i.method = names[-1]
    i.self_ty = names[-2] if len(names) > 1 else ''
    i.self_ty_head = i.self_ty
    i.generics = gen
    return i




def closure_loc(text):
    m = re.search(r'\{closure@([^:}]+:\d+:\d+)', text)
    return m.group(1) if m else None


MAPS = {'HashMap', 'AHashMap', 'UstrMap', 'BTreeMap'}
SETS = {'HashSet', 'AHashSet', 'UstrSet', 'BTreeSet'}
VECS = {'Vec', 'VecDeque'}


def deref(v):
    """follow references to the object"""
    while isinstance(v, Ptr):
        v = v.load()
    return v


class Models:
    def __init__(self):
        self.table = {}          # (self_head or '*', method) -> handler ; ('trait', trait, method) -> handler
        self.regex = []          # (compiled, name, handler)
        self.overrides = set()   # table keys that take precedence over MIR found in the repository
        self.drop_handlers = {}
        self.const_handlers = []
        self.order_mode = 'insertion'   # or 'perm' : hash containers iterate in every order
        self.opaque_types = set()       # repository types modelled as opaque scalars: their trait impls use models
        self.register_std()

    # ------------------------------------------------------------------ registry
    def path(self, types, methods, override=False):
        def deco(f):
            for t in ([types] if isinstance(types, str) else types):
                for m in ([methods] if isinstance(methods, str) else methods):
                    self.table[(t, m)] = f
                    if override:
                        self.overrides.add((t, m))
            return f
        return deco

    def trait(self, trait, methods, self_heads=('*',)):
        def deco(f):
            for m in ([methods] if isinstance(methods, str) else methods):
                for sh in self_heads:
                    self.table[('trait', trait, m, sh)] = f
            return f
        return deco

    def rx(self, pattern, name=None):
        def deco(f):
            self.regex.append((re.compile(pattern), name or pattern, f))
            return f
        return deco

    def lookup(self, callee):
        """-> (name, handler, match, precedence) ; precedence 'override' beats repository MIR, 'fallback' does not"""
        for rxp, name, f in self.regex:
            m = rxp.search(callee)
            if m:
                return (name, (lambda ex, m_, args, callee_, dest, f=f: f(ex, m_, args, callee_, dest)), m, 'override')
        info = normalise(callee)
        h = None
        prec = 'fallback'
        if info.trait is not None:
            key = ('trait', info.trait, info.method, info.self_ty_head)
            h = self.table.get(key)
            if h is not None:
                prec = 'override' if key in self.overrides else 'fallback'
            else:
                h = self.table.get(('trait', info.trait, info.method, '*'))
            name = '<%s as %s>::%s' % (info.self_ty_head, info.trait, info.method)
            if info.self_ty_head in self.opaque_types:
                prec = 'override'
        if h is None and info.trait is None:
            h = self.table.get((info.self_ty_head, info.method))
            name = '%s::%s' % (info.self_ty_head, info.method)
            if (info.self_ty_head, info.method) in self.overrides:
                prec = 'override'
        if h is None:
            return None
        def wrap(ex, m_, args, callee_, dest, h=h, info=info):
            info.dest_ty = dest
            return h(ex, args, info)
        return (name, wrap, None, prec)

    # ------------------------------------------------------------------ hooks used by the interpreter
    def const_model(self, ex, name, is_static):
        for f in self.const_handlers:
            r = f(ex, name, is_static)
            if r is not None:
                return r
        return None

    def discriminant(self, ex, v):
        return None

    def aggregate(self, ex, names, vals):
        return None

    def drop_value(self, ex, v):
        """value directed drop glue: only types with registered handlers do anything"""
        if not self.drop_handlers:
            return
        self._drop(ex, v, 0)

    def _drop(self, ex, v, depth):
        if depth > 12 or v is None or v is MOVED or isinstance(v, (Sc, Ptr, SliceRef, StrV, FnItem, Closure, Opaque)):
            if isinstance(v, Opaque) and v.what in self.drop_handlers:
                self.drop_handlers[v.what](ex, v)
            return
        if isinstance(v, Struct):
            h = self.drop_handlers.get(v.name)
            if h is not None:
                h(ex, v)
            for x in v.f:
                self._drop(ex, x, depth + 1)
        elif isinstance(v, Enum):
            if v.variant is not None:
                for x in v.f:
                    self._drop(ex, x, depth + 1)
        elif isinstance(v, (ArrayV, VecM)):
            for x in v.items:
                self._drop(ex, x, depth + 1)
        elif isinstance(v, MapM):
            for k, c in v.entries:
                self._drop(ex, k, depth + 1)
                self._drop(ex, c.v, depth + 1)
        elif isinstance(v, SetM):
            for x in v.items:
                self._drop(ex, x, depth + 1)
        else:
            h = self.drop_handlers.get(type(v).__name__)
            if h is not None:
                h(ex, v)

    # ------------------------------------------------------------------ structural equality / ordering
    def val_eq(self, ex, a, b):
        a, b = deref(a), deref(b)
        if isinstance(a, Sc) and isinstance(b, Sc):
            if a.ty in ('f32', 'f64'):
                return z3.fpEQ(z3.fpBVToFP(a.t, z3.Float32() if a.ty == 'f32' else z3.Float64()),
                               z3.fpBVToFP(b.t, z3.Float32() if b.ty == 'f32' else z3.Float64()))
            return a.t == b.t
        if isinstance(a, StrV) and isinstance(b, StrV):
            if a.data is not None and b.data is not None:
                if len(a.data) != len(b.data):
                    return z3.BoolVal(False)
                return z3.And([x.t == y.t for x, y in zip(a.data, b.data)]) if a.data else z3.BoolVal(True)
            if a.sid is not None and b.sid is not None:
                return a.sid == b.sid
            raise Unsupported('string equality between byte string and opaque string')
        if isinstance(a, SliceRef) and isinstance(b, SliceRef):
            if a.n != b.n:
                return z3.BoolVal(False)
            return z3.And([self.val_eq(ex, x, y) for x, y in zip(a.items(), b.items())]) if a.n else z3.BoolVal(True)
        if isinstance(a, (ArrayV, VecM)) and isinstance(b, (ArrayV, VecM, SliceRef)):
            bi = b.items() if isinstance(b, SliceRef) else b.items
            if len(a.items) != len(bi):
                return z3.BoolVal(False)
            return z3.And([self.val_eq(ex, x, y) for x, y in zip(a.items, bi)]) if a.items else z3.BoolVal(True)
        if isinstance(a, SliceRef) and isinstance(b, (ArrayV, VecM)):
            return self.val_eq(ex, b, a)
        if isinstance(a, Struct) and isinstance(b, Struct):
            if len(a.f) != len(b.f):
                return z3.BoolVal(False)
            return z3.And([self.val_eq(ex, x, y) for x, y in zip(a.f, b.f)]) if a.f else z3.BoolVal(True)
        if isinstance(a, Enum) and isinstance(b, Enum):
            ex.force(a); ex.force(b)
            if a.variant != b.variant:
                return z3.BoolVal(False)
            return z3.And([self.val_eq(ex, x, y) for x, y in zip(a.f, b.f)]) if a.f else z3.BoolVal(True)
        if isinstance(a, StrV) and isinstance(b, (SliceRef, ArrayV, VecM)):
            bi = b.items() if isinstance(b, SliceRef) else b.items
            if a.data is None:
                raise Unsupported('opaque string compared with bytes')
            if len(a.data) != len(bi):
                return z3.BoolVal(False)
            return z3.And([x.t == y.t for x, y in zip(a.data, bi)]) if bi else z3.BoolVal(True)
        if isinstance(b, StrV) and isinstance(a, (SliceRef, ArrayV, VecM)):
            return self.val_eq(ex, b, a)
        raise Unsupported('equality of %s and %s' % (type(a).__name__, type(b).__name__))

    def eq_sc(self, ex, a, b):
        return Sc(z3.simplify(self.val_eq(ex, a, b)), 'bool')

    # ------------------------------------------------------------------ container helpers
    def map_find(self, ex, mp, key, what='map lookup'):
        """fork over 'key equals entry i' / 'absent'; returns index or None"""
        eqs = [z3.simplify(self.val_eq(ex, key, k)) for k, _ in mp.entries]
        conds = list(eqs) + [z3.And([z3.Not(e) for e in eqs]) if eqs else z3.BoolVal(True)]
        # entries have pairwise distinct keys (map invariant), so the conditions are mutually exclusive
        i = ex.choose(conds, what)
        return None if i == len(mp.entries) else i

    def map_contains(self, ex, mp, key):
        eqs = [self.val_eq(ex, key, k) for k, _ in mp.entries]
        return Sc(z3.simplify(z3.Or(eqs)) if eqs else z3.BoolVal(False), 'bool')

    def set_hits(self, ex, st, key):
        out = []
        for k, g in zip(st.items, st.guards):
            e = self.val_eq(ex, key, k)
            out.append(e if g is None else z3.And(g, e))
        return out

    def set_contains(self, ex, st, key):
        eqs = self.set_hits(ex, st, key)
        return Sc(z3.simplify(z3.Or(eqs)) if eqs else z3.BoolVal(False), 'bool')

    def set_resolve(self, ex, st):
        """make membership concrete (forks on every undecided guard): needed by len / iteration"""
        items = []
        for k, g in zip(st.items, st.guards):
            if g is None or ex.branch(g):
                items.append(k)
        st.items, st.guards = items, [None] * len(items)
        return st

    def key_lt(self, ex, a, b):
        """z3 Bool: a < b in Ord order (integers, byte strings lexicographically)"""
        a, b = deref(a), deref(b)
        while isinstance(a, Struct) and isinstance(b, Struct) and len(a.f) == 1 and len(b.f) == 1:
            a, b = deref(a.f[0]), deref(b.f[0])              # newtype wrappers compare as their content
        if isinstance(a, Sc) and isinstance(b, Sc):
            if a.ty not in INT_W:
                return z3.ULT(a.t, b.t)                       # opaque fixed-width keys (hash values): big-endian byte order
            return ex.binop('Lt', a, b).t
        if isinstance(a, Enum) and isinstance(b, Enum) and not a.f and not b.f:
            # derived Ord of a fieldless enum: declaration order
            ex.force(a); ex.force(b)
            return z3.BoolVal(ex.prog.disc(a.ename, a.variant) < ex.prog.disc(b.ename, b.variant))
        da = a.data if isinstance(a, StrV) else (a.items if isinstance(a, (VecM, ArrayV)) else None)
        db = b.data if isinstance(b, StrV) else (b.items if isinstance(b, (VecM, ArrayV)) else None)
        if da is None or db is None:
            raise Unsupported('ordering of %s and %s' % (type(a).__name__, type(b).__name__))
        res = z3.BoolVal(len(da) < len(db))
        for x, y in reversed(list(zip(da, db))):
            res = z3.If(z3.ULT(x.t, y.t), z3.BoolVal(True), z3.If(x.t == y.t, res, z3.BoolVal(False)))
        return res

    def sorted_order(self, ex, keys):
        order = []
        for i, k in enumerate(keys):
            pos = len(order)
            for j, o in enumerate(order):
                if ex.branch(self.key_lt(ex, k, keys[o])):
                    pos = j
                    break
            order.insert(pos, i)
        return order

    def iteration_order(self, ex, n, ordered, keys=None):
        """indices in the order a container of n entries is iterated"""
        if ordered and keys is not None and n > 1:
            return self.sorted_order(ex, keys)
        if ordered or n <= 1 or self.order_mode == 'insertion':
            return list(range(n))
        perms = list(itertools.permutations(range(n)))
        return list(perms[ex.nondet(len(perms), 'hash iteration order')])

    def mk_iter(self, items, kind='iter'):
        state = {'i': 0, 'items': items}

        def nxt(ex):
            if state['i'] >= len(state['items']):
                return NoneV()
            v = state['items'][state['i']]
            state['i'] += 1
            return Some(v)

        def back(ex):
            if state['i'] >= len(state['items']):
                return NoneV()
            return Some(state['items'].pop())
        it = IterM(nxt, kind, back, remaining=lambda: len(state['items']) - state['i'])
        return it

    def as_iter(self, ex, v, by_ref=False):
        """IntoIterator for a value (owned container, reference to container, slice, iterator)."""
        if isinstance(v, IterM):
            return v
        if isinstance(v, Ptr):
            t = v.load()
            if isinstance(t, IterM):
                return t
            if isinstance(t, (VecM, ArrayV)):
                return self.mk_iter([Ptr(v.cell, v.path + (i,)) for i in range(len(t.items))])
            if isinstance(t, MapM):
                order = self.iteration_order(ex, len(t.entries), t.ordered, [e[0] for e in t.entries])
                return self.mk_iter([Struct([Ptr(Cell(t.entries[i][0])), Ptr(t.entries[i][1])]) for i in order])
            if isinstance(t, SetM):
                self.set_resolve(ex, t)
                order = self.iteration_order(ex, len(t.items), t.ordered, list(t.items))
                return self.mk_iter([Ptr(Cell(t.items[i])) for i in order])
            if isinstance(t, Enum):     # &Option<T>
                ex.force(t)
                return self.mk_iter([Ptr(v.cell, v.path + (0,))] if t.variant == 'Some' else [])
            raise Unsupported('into_iter of reference to %s' % type(t).__name__)
        if isinstance(v, SliceRef):
            return self.mk_iter([v.elem_ptr(i) for i in range(v.n)])
        if isinstance(v, (VecM, ArrayV)):
            return self.mk_iter(list(v.items))
        if isinstance(v, MapM):
            order = self.iteration_order(ex, len(v.entries), v.ordered, [e[0] for e in v.entries])
            return self.mk_iter([Struct([v.entries[i][0], v.entries[i][1].v]) for i in order])
        if isinstance(v, SetM):
            self.set_resolve(ex, v)
            order = self.iteration_order(ex, len(v.items), v.ordered, list(v.items))
            return self.mk_iter([v.items[i] for i in order])
        if isinstance(v, Enum):
            ex.force(v)
            return self.mk_iter([v.f[0]] if v.variant in ('Some', 'Ok') else [])
        if isinstance(v, Struct) and v.name in ('Range', 'RangeInclusive') and len(v.f) >= 2 and isinstance(v.f[0], Sc):
            st = {'cur': v.f[0], 'end': v.f[1], 'incl': v.name == 'RangeInclusive', 'n': 0}
            lim = getattr(ex, 'range_limit', 64)

            def nxt(ex_):
                more = ex_.binop('Le' if st['incl'] else 'Lt', st['cur'], st['end'])
                if not ex_.branch(more.t):
                    return NoneV()
                st['n'] += 1
                if st['n'] > lim:
                    raise BoundExceeded('range longer than %d' % lim)
                cur = st['cur']
                st['cur'] = ex_.binop('Add', cur, mk_int(1, cur.ty))
                return Some(cur)
            return IterM(nxt, 'range')
        raise Unsupported('into_iter of %s' % (v.name if isinstance(v, Struct) else type(v).__name__))

    def drain(self, ex, it, limit=64):
        out = []
        it = self.as_iter(ex, it)
        for _ in range(limit):
            r = it.nextf(ex)
            ex.force(r)
            if r.variant == 'None':
                return out
            out.append(r.f[0])
        raise BoundExceeded('iterator longer than %d' % limit)

    def new_container(self, ty, items=None):
        """empty (or filled) container for a destination / generic type text"""
        h = head_name(ty)
        if h in MAPS:
            return MapM([], ordered=(h == 'BTreeMap'), kind=h)
        if h in SETS:
            return SetM([], ordered=(h == 'BTreeSet'), kind=h)
        if h in VECS:
            return VecM([], h)
        if h == 'String':
            return StrV([], None)
        return None

    def map_insert(self, ex, mp, key, val):
        i = self.map_find(ex, mp, key, 'map insert')
        if i is None:
            mp.entries.append([key, Cell(val)])
            return NoneV()
        old = mp.entries[i][1].v
        mp.entries[i][1].v = val
        return Some(old)

    def set_insert(self, ex, st, key):
        present = self.set_contains(ex, st, key).t
        if z3.is_true(present):
            return mk_bool(False)
        st.items.append(key)
        st.guards.append(None if z3.is_false(present) else z3.Not(present))
        return Sc(z3.simplify(z3.Not(present)), 'bool')

    def collect_into(self, ex, ty, items):
        c = self.new_container(ty)
        if c is None:
            raise Unsupported('collect into ' + ty)
        if isinstance(c, MapM):
            for it in items:
                self.map_insert(ex, c, it.f[0], it.f[1])
        elif isinstance(c, SetM):
            for it in items:
                self.set_insert(ex, c, it)
        elif isinstance(c, VecM):
            c.items.extend(items)
        elif isinstance(c, StrV):
            for it in items:
                c.data.append(it)
        return c

    # ------------------------------------------------------------------ the standard library
    def register_std(self):
        M = self

        def log_consts(ex, name, is_static):
            if name.endswith('STATIC_MAX_LEVEL'):
                return Enum('LevelFilter', 'Off')
            return None
        M.const_handlers.append(log_consts)

        # ---------- panics
        @M.rx(r'^(std::rt::begin_panic|std::rt::panic_fmt|panic_fmt$|assert_failed|core::panicking::panic(_fmt|_nounwind|_explicit|_display)?|core::panicking::panic_bounds_check|core::panicking::assert_failed|std::rt::panic_display|core::option::unwrap_failed|core::option::expect_failed|core::result::unwrap_failed|core::slice::index::slice_\w+_fail|core::str::slice_error_fail|alloc::raw_vec::capacity_overflow|std::process::abort|core::panicking::panic_const::\w+)\b', 'panic')
        def _panic(ex, m, args, callee, dest):
            msg = callee
            for a in args:
                if isinstance(a, StrV) and a.concrete_bytes() is not None:
                    msg = a.concrete_bytes().decode(errors='replace')
                    break
                if isinstance(a, Opaque) and a.what == 'fmt::Arguments' and a.payload:
                    msg = a.payload
            raise PanicPath(msg, ex.site)

        # ---------- formatting / logging (opaque)
        @M.rx(r'^(core::fmt::rt::Argument::<.*>::new_\w+|Arguments::<.*>::new(_const|_v1)?(::<.*>)?|core::fmt::Arguments::<.*>::new\w*(::<.*>)?|core::fmt::rt::\w+::\w+)', 'fmt::Arguments (opaque)')
        def _fmtargs(ex, m, args, callee, dest):
            payload = None
            for a in args:
                a = deref(a)
                if isinstance(a, ArrayV) and a.items and isinstance(deref(a.items[0]), StrV):
                    b = deref(a.items[0]).concrete_bytes()
                    payload = b.decode(errors='replace') if b is not None else None
            return Opaque('fmt::Arguments', payload)

        @M.rx(r'^(alloc::fmt::format|std::fmt::format|format|std::fmt::format::format_inner|alloc::fmt::format::format_inner)\b', 'fmt::format (opaque string)')
        def _format(ex, m, args, callee, dest):
            return StrV(None, z3.Int(ex.fresh('fmt')))

        @M.rx(r'^(log::__private_api::\w+(::<.*>)?|log::max_level|max_level|profiling::\w+|std::io::_e?print)$', 'log (no-op)')
        def _log(ex, m, args, callee, dest):
            if 'max_level' in callee:
                return Enum('LevelFilter', 'Off')
            return Unit()

        @M.rx(r'^<(log::)?Level as PartialOrd<(log::)?LevelFilter>>::(le|lt|ge|gt)$', 'log level test (logging disabled)')
        def _log_level(ex, m, args, callee, dest):
            return mk_bool(False)

        # ---------- Deref family (identity on our reference model)
        @M.trait('Deref', 'deref')
        @M.trait('DerefMut', 'deref_mut')
        @M.trait('AsRef', 'as_ref')
        @M.trait('AsMut', 'as_mut')
        @M.trait('Borrow', 'borrow')
        @M.trait('BorrowMut', 'borrow_mut')
        def _deref(ex, args, info):
            p = args[0]
            t = p.load() if isinstance(p, Ptr) else p
            while isinstance(t, Ptr) and not t.boxed and info.trait in ('AsRef', 'AsMut', 'Borrow', 'BorrowMut'):
                p = t                      # &&T: auto-deref through the blanket impls for references
                t = p.load()
            if isinstance(t, VecM) and info.self_ty_head in ('Vec', 'VecDeque') and info.trait in ('Deref', 'DerefMut', 'AsRef', 'AsMut', 'Borrow'):
                return SliceRef(p, 0, len(t.items))
            if isinstance(t, ArrayV) and info.trait in ('AsRef', 'AsMut', 'Borrow'):
                return SliceRef(p, 0, len(t.items))
            if isinstance(t, StrV):
                return t
            if isinstance(t, Ptr) and t.boxed:
                return t
            if isinstance(t, Enum) and t.ename == 'Cow':
                ex.force(t)
                if t.variant == 'Borrowed':
                    return t.f[0]
                return p.downcast_field('Owned', 0) if hasattr(p, 'downcast_field') else Ptr(Cell(t.f[0]))
            if isinstance(t, Struct) and t.name in ('BinaryString', 'ContentId') and len(t.f) == 1:
                inner = t.f[0]
                if isinstance(inner, VecM):
                    return SliceRef(p.field(0), 0, len(inner.items))
                return inner
            return p

        @M.trait('Into', 'into')
        @M.trait('From', 'from')
        def _into(ex, args, info):
            v = args[0]
            target = last_seg(info.targs) if info.trait == 'Into' and info.targs else head_name(info.self_ty)
            src = info.self_ty_head if info.trait == 'Into' else (last_seg(info.targs) if info.targs else '')
            return M.convert(ex, v, target, info)

        @M.trait('TryInto', 'try_into')
        def _try_into(ex, args, info):
            """blanket impl: T: TryInto<U> where U: TryFrom<T>"""
            target = parse.split_top(info.targs)[0].strip() if info.targs else ''
            callee = '<%s as TryFrom<%s>>::try_from' % (target, info.self_ty)
            f = ex.prog.resolve(callee, getattr(ex, 'cur_fn', None))
            if f is not None:
                return ex.call_fn(f, [args[0]])
            mh = M.lookup(callee)
            if mh is not None:
                return mh[1](ex, mh[2], [args[0]], callee, info.dest_ty)
            raise Unsupported('TryInto: no TryFrom impl found for ' + callee)

        # ---------- Default / Clone / PartialEq / ToString
        @M.trait('Default', 'default')
        def _default(ex, args, info):
            c = M.new_container(info.self_ty)
            if c is not None:
                return c
            h = info.self_ty_head
            if h in ('Ustr',):
                return StrV.lit(b'')
            if h in INT_W:
                return mk_int(0, h)
            if h == 'bool':
                return mk_bool(False)
            raise Unsupported('Default for ' + info.self_ty)

        @M.trait('Clone', 'clone')
        def _clone(ex, args, info):
            v = deref(args[0])
            return M.clone_value(ex, v)

        @M.trait('PartialEq', 'eq')
        def _eq(ex, args, info):
            return M.eq_sc(ex, args[0], args[1])

        @M.trait('PartialEq', 'ne')
        def _ne(ex, args, info):
            return Sc(z3.simplify(z3.Not(M.val_eq(ex, args[0], args[1]))), 'bool')

        @M.trait('ToString', 'to_string')
        @M.trait('ToOwned', 'to_owned')
        def _tostring(ex, args, info):
            v = deref(args[0])
            if isinstance(v, StrV):
                return StrV(list(v.data) if v.data is not None else None, v.sid)
            if isinstance(v, SliceRef):
                return VecM(list(v.items()))
            if isinstance(v, Sc):
                # decimal text of a number: only ever part of messages; opaque string with its own identity
                return StrV(None, z3.Int(ex.fresh('numstr')))
            raise Unsupported('to_string of %s' % type(v).__name__)

        # ---------- ustr
        @M.path('', 'ustr')
        @M.path('ustr', 'ustr')
        def _ustr(ex, args, info):
            return deref(args[0])

        @M.path('Ustr', ['as_str', 'from', 'to_owned', 'as_string'])
        def _ustr_id(ex, args, info):
            return deref(args[0])

        # ---------- String / str
        @M.path('String', 'new')
        def _string_new(ex, args, info):
            return StrV([], StrV.intern_id(b''))

        @M.path('str', 'chars')
        def _chars(ex, args, info):
            return Opaque('Chars', deref(args[0]))

        @M.rx(r'^<(?:std::str::|core::str::)?Chars(?:<\'_>)? as Iterator>::count$', 'Chars::count (number of bytes that are not UTF-8 continuation bytes)')
        def _chars_count(ex, m, args, callee, dest):
            sv = args[0].payload
            if sv.data is None:
                raise Unsupported('chars().count() of an opaque string')
            tot = z3.BitVecVal(0, 64)
            for b in sv.data:
                tot = tot + z3.If((b.t & 0xC0) != 0x80, z3.BitVecVal(1, 64), z3.BitVecVal(0, 64))
            return Sc(z3.simplify(tot), 'usize')

        @M.path('String', ['push_str', 'push'])
        def _push_str(ex, args, info):
            dst, src = deref(args[0]), deref(args[1])
            if isinstance(dst, StrV) and dst.data is not None and isinstance(src, StrV) and src.data is not None:
                dst.data.extend(src.data)
                dst.sid = None
            elif isinstance(dst, StrV):
                dst.data, dst.sid = None, z3.Int(ex.fresh('str'))        # text that only ever reaches messages
            else:
                raise Unsupported('push_str on %r' % (dst,))
            return Unit()

        @M.path('String', ['as_str', 'as_bytes', 'into_bytes', 'as_mut_str'])
        @M.path('str', ['as_bytes', 'as_ptr', 'to_owned', 'to_string'])
        def _string_as(ex, args, info):
            v = deref(args[0])
            if info.method in ('as_bytes', 'into_bytes') and isinstance(v, StrV):
                if v.data is None:
                    raise Unsupported('bytes of opaque string')
                if info.method == 'into_bytes':
                    return VecM(list(v.data))
                return SliceRef(Ptr(Cell(ArrayV(list(v.data)))), 0, len(v.data))
            return v

        @M.path(['String', 'str', 'Vec', 'VecDeque', 'slice', 'HashMap', 'AHashMap', 'HashSet', 'AHashSet', 'BTreeMap', 'BTreeSet', 'array'], ['len', 'is_empty'])
        def _len(ex, args, info):
            v = args[0]
            v = v if isinstance(v, SliceRef) else deref(v)
            if isinstance(v, SetM):
                M.set_resolve(ex, v)
            n = M.length(v)
            return mk_int(n, 'usize') if info.method == 'len' else mk_bool(n == 0)

        @M.path(['String'], ['with_capacity'])
        def _string_cap(ex, args, info):
            M.record_alloc(ex, args[0], 1, info.callee)
            return StrV([], None)

        @M.path('str', 'is_empty')
        def _str_empty(ex, args, info):
            v = deref(args[0])
            if v.data is not None:
                return mk_bool(len(v.data) == 0)
            return Sc(v.sid == StrV.intern_id(b''), 'bool')

        # ---------- Option / Result
        @M.path(['Option', 'Result'], ['unwrap', 'expect', 'unwrap_unchecked'])
        def _unwrap(ex, args, info):
            e = ex.force(args[0])
            if e.variant in ('Some', 'Ok'):
                return e.f[0]
            msg = 'called `%s::%s()` on a `%s` value' % (e.ename, info.method, e.variant)
            if info.method == 'expect' and isinstance(args[1], StrV) and args[1].concrete_bytes() is not None:
                msg = args[1].concrete_bytes().decode(errors='replace')
            raise PanicPath(msg, ex.site)

        @M.path(['Option', 'Result'], ['unwrap_err', 'expect_err'])
        def _unwrap_err(ex, args, info):
            e = ex.force(args[0])
            if e.variant == 'Err':
                return e.f[0]
            raise PanicPath('unwrap_err on Ok', ex.site)

        @M.path(['Option', 'Result'], 'unwrap_or_else')
        def _unwrap_or_else(ex, args, info):
            e = ex.force(args[0])
            if e.variant in ('Some', 'Ok'):
                return e.f[0]
            return ex.call_value(args[1], [e.f[0]] if e.variant == 'Err' else [])

        @M.path(['Option', 'Result'], 'unwrap_or')
        def _unwrap_or(ex, args, info):
            e = ex.force(args[0])
            return e.f[0] if e.variant in ('Some', 'Ok') else args[1]

        @M.path(['Option', 'Result'], 'unwrap_or_default')
        def _unwrap_or_default(ex, args, info):
            e = ex.force(args[0])
            if e.variant in ('Some', 'Ok'):
                return e.f[0]
            m = re.match(r'^(?:std::\w+::)*(?:Option|Result)::<(.*)>$', info.callee.rsplit('::', 1)[0], re.S)
            ty = parse.split_top(m.group(1))[0].strip() if m else ''
            h = head_name(ty)
            if h == 'str' or h == 'String':
                return StrV([], StrV.intern_id(b''))
            if h in INT_W:
                return mk_int(0, h)
            c = M.new_container(ty)
            if c is not None:
                return c
            f = ex.prog.resolve('<%s as Default>::default' % last_seg(ty), None)
            if f is not None:
                return ex.call_fn(f, [])
            raise Unsupported('unwrap_or_default for ' + ty)

        @M.path('Option', ['is_some', 'is_none'])
        def _is_some(ex, args, info):
            e = deref(args[0])
            if e.variant is None:
                some = z3.Or([c for c, v, _ in e.alts if v == 'Some'])
                return Sc(z3.simplify(some if info.method == 'is_some' else z3.Not(some)), 'bool')
            return mk_bool((e.variant == 'Some') == (info.method == 'is_some'))

        @M.path('Result', ['is_ok', 'is_err'])
        def _is_ok(ex, args, info):
            e = ex.force(deref(args[0]))
            return mk_bool((e.variant == 'Ok') == (info.method == 'is_ok'))

        @M.path('Option', ['map', 'and_then', 'map_or', 'map_or_else', 'filter', 'or_else', 'ok_or', 'ok_or_else', 'take', 'as_ref', 'as_mut',
                           'cloned', 'copied', 'is_some_and', 'or', 'and', 'as_deref', 'replace', 'insert', 'get_or_insert_with', 'iter', 'xor', 'zip', 'then'])
        def _option(ex, args, info):
            m = info.method
            if m in ('take', 'as_ref', 'as_mut', 'replace', 'insert', 'get_or_insert_with', 'as_deref', 'iter'):
                p = args[0]
                e = ex.force(p.load())
                if m == 'take':
                    p.store(NoneV())
                    return e
                if m == 'replace':
                    p.store(Some(args[1]))
                    return e
                if m == 'insert':
                    p.store(Some(args[1]))
                    return p.field(0)
                if m == 'get_or_insert_with':
                    if e.variant == 'None':
                        p.store(Some(ex.call_value(args[1], [])))
                    return p.field(0)
                if m == 'iter':
                    return M.mk_iter([p.field(0)] if e.variant == 'Some' else [])
                if e.variant == 'None':
                    return NoneV()
                if m == 'as_deref':
                    inner = e.f[0]
                    return Some(inner if isinstance(inner, StrV) else p.field(0))
                return Some(p.field(0))
            e = ex.force(args[0])
            if m == 'map':
                return Some(ex.call_value(args[1], [e.f[0]])) if e.variant == 'Some' else NoneV()
            if m == 'and_then':
                return ex.call_value(args[1], [e.f[0]]) if e.variant == 'Some' else NoneV()
            if m == 'map_or':
                return ex.call_value(args[2], [e.f[0]]) if e.variant == 'Some' else args[1]
            if m == 'map_or_else':
                return ex.call_value(args[2], [e.f[0]]) if e.variant == 'Some' else ex.call_value(args[1], [])
            if m == 'filter':
                if e.variant == 'None':
                    return e
                r = ex.call_value(args[1], [Ptr(Cell(e.f[0]))])
                return e if ex.branch(r.t) else NoneV()
            if m == 'is_some_and':
                if e.variant == 'None':
                    return mk_bool(False)
                return ex.call_value(args[1], [e.f[0]])
            if m == 'or_else':
                return e if e.variant == 'Some' else ex.call_value(args[1], [])
            if m == 'or':
                return e if e.variant == 'Some' else args[1]
            if m == 'and':
                return args[1] if e.variant == 'Some' else NoneV()
            if m == 'ok_or':
                return Ok(e.f[0]) if e.variant == 'Some' else Err(args[1])
            if m == 'ok_or_else':
                return Ok(e.f[0]) if e.variant == 'Some' else Err(ex.call_value(args[1], []))
            if m in ('cloned', 'copied'):
                return Some(clone_val(deref(e.f[0]))) if e.variant == 'Some' else NoneV()
            raise Unsupported('Option::' + m)

        @M.path('Result', ['map', 'map_err', 'and_then', 'ok', 'err', 'or_else', 'as_ref', 'as_mut', 'is_ok_and', 'map_or', 'iter'])
        def _result(ex, args, info):
            m = info.method
            if m in ('as_ref', 'as_mut'):
                p = args[0]
                e = ex.force(p.load())
                return Enum('Result', e.variant, [p.field(0)])
            e = ex.force(args[0])
            if m == 'map':
                return Ok(ex.call_value(args[1], [e.f[0]])) if e.variant == 'Ok' else e
            if m == 'map_err':
                return Err(ex.call_value(args[1], [e.f[0]])) if e.variant == 'Err' else e
            if m == 'and_then':
                return ex.call_value(args[1], [e.f[0]]) if e.variant == 'Ok' else e
            if m == 'or_else':
                return ex.call_value(args[1], [e.f[0]]) if e.variant == 'Err' else e
            if m == 'ok':
                return Some(e.f[0]) if e.variant == 'Ok' else NoneV()
            if m == 'err':
                return Some(e.f[0]) if e.variant == 'Err' else NoneV()
            if m == 'map_or':
                return ex.call_value(args[2], [e.f[0]]) if e.variant == 'Ok' else args[1]
            raise Unsupported('Result::' + m)

        @M.trait('Try', 'branch')
        def _try_branch(ex, args, info):
            e = ex.force(args[0])
            if e.variant in ('Ok', 'Some'):
                return Enum('ControlFlow', 'Continue', [e.f[0]])
            return Enum('ControlFlow', 'Break', [Enum(e.ename, e.variant, list(e.f))])

        @M.trait('FromResidual', 'from_residual')
        def _from_residual(ex, args, info):
            e = ex.force(args[0])
            if e.variant == 'Err':
                tgt = info.self_ty
                err = e.f[0]
                # `?` converts the error with From::from: value directed conversion through the interpreter
                m = re.search(r'Result<.*,\s*(.+)>\s*$', tgt, re.S)
                want = last_seg(m.group(1)) if m else None
                conv = M.convert_error(ex, err, want, info)
                return Err(conv)
            return NoneV()

        # ---------- Vec / VecDeque / slices
        @M.path(VECS, ['new', 'with_capacity', 'default'])
        def _vec_new(ex, args, info):
            if info.method == 'with_capacity':
                M.record_alloc(ex, args[0], None, info.callee)
            return VecM([], info.self_ty_head)

        @M.path(VECS, ['push', 'push_back'])
        def _vec_push(ex, args, info):
            deref(args[0]).items.append(args[1])
            return Unit()

        @M.path('VecDeque', 'push_front')
        def _vec_push_front(ex, args, info):
            deref(args[0]).items.insert(0, args[1])
            return Unit()

        @M.path(VECS, ['pop', 'pop_back'])
        def _vec_pop(ex, args, info):
            v = deref(args[0])
            return Some(v.items.pop()) if v.items else NoneV()

        @M.path('VecDeque', 'pop_front')
        def _vec_pop_front(ex, args, info):
            v = deref(args[0])
            return Some(v.items.pop(0)) if v.items else NoneV()

        @M.path(VECS, 'insert')
        def _vec_insert(ex, args, info):
            v = deref(args[0])
            i = ex.concretize(args[1], 0, len(v.items) + 1, 'Vec::insert index')
            v.items.insert(i, args[2])
            return Unit()

        @M.path(VECS, ['remove', 'swap_remove'])
        def _vec_remove(ex, args, info):
            v = deref(args[0])
            try:
                i = ex.concretize(args[1], 0, len(v.items), 'Vec::remove index')
            except BoundExceeded:
                raise PanicPath('Vec::remove index out of bounds', ex.site)
            if info.method == 'swap_remove':
                x = v.items[i]
                v.items[i] = v.items[-1]
                v.items.pop()
                return x
            x = v.items.pop(i)
            return Some(x) if info.self_ty_head == 'VecDeque' else x

        @M.path(VECS, ['drain'])
        def _vec_drain(ex, args, info):
            v = deref(args[0])
            r = args[1]
            n = len(v.items)
            lo, hi = 0, n
            if isinstance(r, Struct):
                nm = r.name or ''
                if nm == 'Range':
                    lo = ex.concretize(r.f[0], 0, n + 1, 'drain start'); hi = ex.concretize(r.f[1], 0, n + 1, 'drain end')
                elif nm == 'RangeFrom':
                    lo = ex.concretize(r.f[0], 0, n + 1, 'drain start')
                elif nm == 'RangeTo':
                    hi = ex.concretize(r.f[0], 0, n + 1, 'drain end')
            out = v.items[lo:hi]
            del v.items[lo:hi]
            return M.mk_iter(out)

        @M.path(VECS, ['split_off'])
        def _vec_split_off(ex, args, info):
            v = deref(args[0])
            k = ex.concretize(args[1], 0, len(v.items) + 1, 'split_off')
            out = VecM(v.items[k:], v.kind)
            del v.items[k:]
            return out

        @M.path(VECS, ['dedup'])
        def _vec_dedup(ex, args, info):
            v = deref(args[0])
            out = []
            for x in v.items:
                if out and ex.branch(M.val_eq(ex, out[-1], x)):
                    continue
                out.append(x)
            v.items[:] = out
            return Unit()

        @M.path(VECS, ['rotate_left', 'rotate_right'])
        def _vec_rotate(ex, args, info):
            v = deref(args[0])
            n = len(v.items)
            k = ex.concretize(args[1], 0, n + 1, 'rotate')
            if info.method == 'rotate_right':
                k = (n - k) % n if n else 0
            v.items[:] = v.items[k:] + v.items[:k]
            return Unit()

        @M.path(MAPS, ['retain'])
        def _map_retain(ex, args, info):
            mp = deref(args[0])
            keep = []
            for k, c in list(mp.entries):
                r = ex.call_value(args[1], [Ptr(Cell(k)), Ptr(c)])
                if ex.branch(r.t):
                    keep.append([k, c])
            mp.entries[:] = keep
            return Unit()

        @M.path(VECS, ['clear'])
        def _vec_clear(ex, args, info):
            deref(args[0]).items[:] = []
            return Unit()

        @M.path(VECS, ['truncate'])
        def _vec_truncate(ex, args, info):
            v = deref(args[0])
            n = ex.concretize(args[1], 0, len(v.items) + 1, 'truncate')
            del v.items[n:]
            return Unit()

        @M.path(VECS, ['reserve', 'reserve_exact', 'shrink_to_fit'])
        @M.path(MAPS | SETS, ['reserve', 'shrink_to_fit'])
        def _reserve(ex, args, info):
            return Unit()

        @M.path(VECS, 'retain')
        def _vec_retain(ex, args, info):
            v = deref(args[0])
            keep = []
            for it in list(v.items):
                r = ex.call_value(args[1], [Ptr(Cell(it))])
                if ex.branch(r.t):
                    keep.append(it)
            v.items[:] = keep
            return Unit()

        @M.path(VECS, ['extend_from_slice', 'append'])
        def _vec_extend_slice(ex, args, info):
            v = deref(args[0])
            o = args[1]
            if isinstance(o, SliceRef):
                v.items.extend(copy_val(x) for x in o.items())
            else:
                o = deref(o)
                v.items.extend(o.items)
                if info.method == 'append':
                    o.items[:] = []
            return Unit()

        @M.path(VECS | {'slice', 'array'}, ['iter', 'iter_mut'])
        def _slice_iter(ex, args, info):
            return M.as_iter(ex, args[0])

        @M.path(VECS | {'slice'}, ['first', 'last', 'first_mut', 'last_mut', 'front', 'back'])
        def _first_last(ex, args, info):
            v = args[0]
            n = M.length(v if isinstance(v, SliceRef) else deref(v))
            if n == 0:
                return NoneV()
            i = 0 if info.method in ('first', 'first_mut', 'front') else n - 1
            return Some(M.elem_ptr(v, i))

        @M.path(VECS | {'slice'}, ['get', 'get_mut'])
        def _slice_get(ex, args, info):
            v = args[0]
            n = M.length(v if isinstance(v, SliceRef) else deref(v))
            idx = args[1]
            if not isinstance(idx, Sc):
                raise Unsupported('slice get with range')
            try:
                i = ex.concretize(idx, 0, n, 'slice get')
            except BoundExceeded:
                return NoneV()
            return Some(M.elem_ptr(v, i))

        @M.path(VECS | {'slice'}, 'contains')
        def _slice_contains(ex, args, info):
            v = args[0]
            items = v.items() if isinstance(v, SliceRef) else deref(v).items
            eqs = [M.val_eq(ex, x, args[1]) for x in items]
            return Sc(z3.simplify(z3.Or(eqs)) if eqs else z3.BoolVal(False), 'bool')

        @M.path(VECS | {'slice', 'array'}, ['as_slice', 'as_mut_slice', 'as_ref', 'make_contiguous'])
        def _as_slice(ex, args, info):
            v = args[0]
            if isinstance(v, SliceRef):
                return v
            t = v.load()
            return SliceRef(v, 0, len(t.items))

        @M.path(VECS | {'slice'}, ['to_vec', 'into_vec', 'to_owned', 'into_boxed_slice'])
        def _to_vec(ex, args, info):
            v = args[0]
            if isinstance(v, SliceRef):
                return VecM([clone_val(x) for x in v.items()])
            v = deref(v)
            return VecM(list(v.items)) if info.method in ('into_vec', 'into_boxed_slice') else VecM([clone_val(x) for x in v.items])

        @M.path({'slice'} | VECS, ['reverse'])
        def _reverse(ex, args, info):
            v = args[0]
            if isinstance(v, SliceRef):
                items = v.items()[::-1]
                for i, x in enumerate(items):
                    v.set(i, x)
            else:
                deref(v).items.reverse()
            return Unit()

        @M.path({'slice'} | VECS, ['swap'])
        def _swap(ex, args, info):
            v = args[0]
            n = M.length(v if isinstance(v, SliceRef) else deref(v))
            i = ex.concretize(args[1], 0, n, 'swap'); j = ex.concretize(args[2], 0, n, 'swap')
            a, b = M.elem_ptr(v, i), M.elem_ptr(v, j)
            x, y = a.load(), b.load()
            a.store(y); b.store(x)
            return Unit()

        @M.path({'slice'}, ['copy_from_slice', 'clone_from_slice'])
        def _copy_from_slice(ex, args, info):
            d, s = args[0], args[1]
            if isinstance(s, Ptr):
                s = s.load()
            src = list(s.data) if isinstance(s, StrV) else (list(s.items) if isinstance(s, (VecM, ArrayV)) else s.items())
            if not isinstance(d, SliceRef):
                d = SliceRef(d, 0, len(d.load().items))
            if d.n != len(src):
                raise PanicPath('copy_from_slice: source slice length (%d) does not match destination slice length (%d)' % (len(src), d.n), ex.site)
            for i, x in enumerate(src):
                d.set(i, copy_val(x))
            return Unit()

        @M.path({'slice'}, ['fill'])
        def _fill(ex, args, info):
            for i in range(args[0].n):
                args[0].set(i, copy_val(args[1]))
            return Unit()

        @M.path({'slice'}, ['split_at', 'split_at_mut'])
        def _split_at(ex, args, info):
            s = args[0]
            try:
                k = ex.concretize(args[1], 0, s.n + 1, 'split_at')
            except BoundExceeded:
                raise PanicPath('split_at: mid > len', ex.site)
            return Struct([SliceRef(s.ptr, s.start, k), SliceRef(s.ptr, s.start + k, s.n - k)])

        @M.path({'slice'}, ['starts_with'])
        def _starts_with(ex, args, info):
            s, p = args[0], args[1]
            if p.n > s.n:
                return mk_bool(False)
            return Sc(z3.simplify(z3.And([M.val_eq(ex, s.get(i), p.get(i)) for i in range(p.n)])) if p.n else z3.BoolVal(True), 'bool')

        @M.path('', ['from_elem'])
        @M.path('vec', ['from_elem'])
        def _from_elem(ex, args, info):
            n = M.alloc_len(ex, args[1], info.callee)
            return VecM([copy_val(args[0]) for _ in range(n)])

        @M.trait('Index', 'index')
        @M.trait('IndexMut', 'index_mut')
        def _index(ex, args, info):
            base, idx = args[0], args[1]
            t = base if isinstance(base, SliceRef) else base.load()
            if isinstance(t, MapM):
                i = M.map_find(ex, t, deref(idx), 'map index')
                if i is None:
                    raise PanicPath('map index: key not found', ex.site)
                return Ptr(t.entries[i][1])
            n = M.length(t)
            if isinstance(idx, Sc):
                try:
                    i = ex.concretize(idx, 0, n, 'index')
                except BoundExceeded:
                    raise PanicPath('index out of bounds', ex.site)
                return M.elem_ptr(base, i)
            if isinstance(idx, Struct):       # ranges: Range{start,end} / RangeFrom{start} / RangeTo{end} / RangeFull
                lo, hi = 0, n
                nm = idx.name or ''
                try:
                    if nm == 'Range':
                        lo = ex.concretize(idx.f[0], 0, n + 1, 'range start'); hi = ex.concretize(idx.f[1], 0, n + 1, 'range end')
                    elif nm == 'RangeFrom':
                        lo = ex.concretize(idx.f[0], 0, n + 1, 'range start')
                    elif nm == 'RangeTo':
                        hi = ex.concretize(idx.f[0], 0, n + 1, 'range end')
                    elif nm == 'RangeInclusive':
                        lo = ex.concretize(idx.f[0], 0, n + 1, 'range start'); hi = ex.concretize(idx.f[1], 0, n, 'range end') + 1
                    elif nm == 'RangeFull':
                        pass
                    else:
                        raise Unsupported('index with ' + nm)
                except BoundExceeded:
                    raise PanicPath('range end index out of range for slice', ex.site)
                if hi > n:
                    raise PanicPath('range end index %d out of range for slice of length %d' % (hi, n), ex.site)
                if lo > hi:
                    raise PanicPath('slice index starts at %d but ends at %d' % (lo, hi), ex.site)
                if isinstance(base, SliceRef):
                    return SliceRef(base.ptr, base.start + lo, hi - lo)
                if isinstance(t, StrV):
                    return StrV(t.data[lo:hi], None)
                return SliceRef(base, lo, hi - lo)
            raise Unsupported('index with %r' % (idx,))

        # ---------- sorting (stable): order decided by the solver through key_lt, one fork per undecided comparison
        @M.path({'slice'} | VECS, ['sort_by_key', 'sort_by_cached_key', 'sort', 'sort_unstable', 'sort_unstable_by_key'])
        def _sort(ex, args, info):
            sl = args[0]
            if not isinstance(sl, SliceRef):
                sl = SliceRef(sl, 0, len(sl.load().items))
            items = sl.items()
            if len(items) < 2:
                return Unit()
            keys = [ex.call_value(args[1], [Ptr(Cell(x))]) for x in items] if len(args) > 1 else list(items)
            order = M.sorted_order(ex, keys)
            new = [items[i] for i in order]
            for i, x in enumerate(new):
                sl.set(i, x)
            return Unit()

        # ---------- slice adapters
        @M.path({'slice'}, ['chunks', 'chunks_exact', 'chunks_mut', 'chunks_exact_mut'])
        def _chunks(ex, args, info):
            sl = args[0]
            if not isinstance(sl, SliceRef):
                sl = SliceRef(sl, 0, len(sl.load().items))
            k = args[1].concrete()
            if k is None or k == 0:
                raise PanicPath('chunk size must be non-zero', ex.site) if k == 0 else Unsupported('symbolic chunk size')
            out, i = [], 0
            while i < sl.n:
                m_ = min(k, sl.n - i)
                if m_ < k and info.method.startswith('chunks_exact'):
                    break
                out.append(SliceRef(sl.ptr, sl.start + i, m_))
                i += m_
            return M.mk_iter(out)

        @M.path({'slice'}, 'split')
        def _slice_split(ex, args, info):
            """slice.split(pred): sub-slices between elements matching pred (one fork per element)"""
            sl, f = args[0], args[1]
            if not isinstance(sl, SliceRef):
                sl = SliceRef(sl, 0, len(sl.load().items))
            out, start = [], 0
            items = sl.items()
            for i in range(sl.n):
                k = ex.call_value(f, [Ptr(Cell(items[i]))])
                if ex.branch(k.t):
                    out.append(SliceRef(sl.ptr, sl.start + start, i - start))
                    start = i + 1
            out.append(SliceRef(sl.ptr, sl.start + start, sl.n - start))
            return M.mk_iter(out)

        @M.rx(r'^(?:core::|std::|alloc::)?(?:slice|str)::<impl \[(?:String|&str|std::string::String)\]>::join::<&str>$|^.*\[String\]>::join::<&str>$', 'slice::join')
        def _join(ex, m, args, callee, dest):
            sl, sep = args[0], deref(args[1])
            items = sl.items() if isinstance(sl, SliceRef) else deref(sl).items
            data = []
            for i, x in enumerate(items):
                x = deref(x)
                if i:
                    data.extend(sep.data)
                data.extend(x.data)
            return StrV(list(data), None)

        @M.rx(r'^(?:std::iter::|core::iter::)?successors::<', 'iter::successors')
        def _successors(ex, m, args, callee, dest):
            st = {'cur': args[0]}
            f = args[1]

            def nxt(ex_):
                cur = ex_.force(st['cur']) if isinstance(st['cur'], Enum) else st['cur']
                if cur.variant == 'None':
                    return cur
                item = cur.f[0]
                st['cur'] = ex_.call_value(f, [Ptr(Cell(item))])
                return Some(item)
            return IterM(nxt, 'successors')

        # ---------- iterators
        @M.trait('IntoIterator', 'into_iter')
        def _into_iter(ex, args, info):
            return M.as_iter(ex, args[0])

        @M.path(MAPS | SETS, ['iter', 'iter_mut'])
        def _map_iter(ex, args, info):
            return M.as_iter(ex, args[0])

        @M.path(MAPS, ['values', 'values_mut', 'keys', 'into_values', 'into_keys'])
        def _map_values(ex, args, info):
            t = deref(args[0])
            order = M.iteration_order(ex, len(t.entries), t.ordered, [e[0] for e in t.entries])
            if info.method in ('values', 'values_mut'):
                return M.mk_iter([Ptr(t.entries[i][1]) for i in order])
            if info.method == 'keys':
                return M.mk_iter([Ptr(Cell(t.entries[i][0])) for i in order])
            if info.method == 'into_values':
                return M.mk_iter([t.entries[i][1].v for i in order])
            return M.mk_iter([t.entries[i][0] for i in order])

        @M.trait('Iterator', 'next')
        def _next(ex, args, info):
            it = deref(args[0])
            if isinstance(it, Struct) and it.name in ('Range', 'RangeInclusive') and isinstance(args[0], Ptr):
                it = M.as_iter(ex, it)
                args[0].store(it)
            if not isinstance(it, IterM):
                raise Unsupported('Iterator::next on %s' % type(it).__name__)
            return it.nextf(ex)

        @M.trait('DoubleEndedIterator', 'next_back')
        def _next_back(ex, args, info):
            it = deref(args[0])
            if it.back is None:
                raise Unsupported('next_back on adapter')
            return it.back(ex)

        @M.trait('Iterator', ['copied', 'cloned'])
        def _copied(ex, args, info):
            src = M.as_iter(ex, args[0])

            def nxt(ex_):
                r = ex_.force(src.nextf(ex_))
                return Some(clone_val(deref(r.f[0]))) if r.variant == 'Some' else r
            return IterM(nxt, 'copied', src=src)

        @M.trait('Iterator', 'map')
        def _map(ex, args, info):
            src, f = M.as_iter(ex, args[0]), args[1]

            def nxt(ex_):
                r = ex_.force(src.nextf(ex_))
                return Some(ex_.call_value(f, [r.f[0]])) if r.variant == 'Some' else r
            return IterM(nxt, 'map', src=src)

        @M.trait('Iterator', 'filter')
        def _filter(ex, args, info):
            src, f = M.as_iter(ex, args[0]), args[1]

            def nxt(ex_):
                while True:
                    r = ex_.force(src.nextf(ex_))
                    if r.variant == 'None':
                        return r
                    k = ex_.call_value(f, [Ptr(Cell(r.f[0]))])
                    if ex_.branch(k.t):
                        return r
            return IterM(nxt, 'filter')

        @M.trait('Iterator', 'filter_map')
        def _filter_map(ex, args, info):
            src, f = M.as_iter(ex, args[0]), args[1]

            def nxt(ex_):
                while True:
                    r = ex_.force(src.nextf(ex_))
                    if r.variant == 'None':
                        return r
                    k = ex_.force(ex_.call_value(f, [r.f[0]]))
                    if k.variant == 'Some':
                        return k
            return IterM(nxt, 'filter_map')

        @M.trait('Iterator', 'enumerate')
        def _enumerate(ex, args, info):
            src = M.as_iter(ex, args[0])
            st = {'i': 0}

            def nxt(ex_):
                r = ex_.force(src.nextf(ex_))
                if r.variant == 'None':
                    return r
                i = st['i']; st['i'] += 1
                return Some(Struct([mk_int(i, 'usize'), r.f[0]]))
            return IterM(nxt, 'enumerate', src=src)

        @M.trait('Iterator', 'zip')
        def _zip(ex, args, info):
            a, b = M.as_iter(ex, args[0]), M.as_iter(ex, args[1])

            def nxt(ex_):
                x = ex_.force(a.nextf(ex_))
                if x.variant == 'None':
                    return x
                y = ex_.force(b.nextf(ex_))
                if y.variant == 'None':
                    return y
                return Some(Struct([x.f[0], y.f[0]]))
            return IterM(nxt, 'zip')

        @M.trait('Iterator', 'chain')
        def _chain(ex, args, info):
            a, b = M.as_iter(ex, args[0]), M.as_iter(ex, args[1])

            def nxt(ex_):
                x = ex_.force(a.nextf(ex_))
                if x.variant == 'Some':
                    return x
                return b.nextf(ex_)
            return IterM(nxt, 'chain')

        @M.trait('Iterator', ['rev'])
        def _rev(ex, args, info):
            items = M.drain(ex, args[0])
            return M.mk_iter(items[::-1])

        @M.trait('Iterator', ['skip', 'take', 'step_by'])
        def _skip_take(ex, args, info):
            items = M.drain(ex, args[0])
            k = ex.concretize(args[1], 0, len(items) + 2, info.method)
            if info.method == 'skip':
                return M.mk_iter(items[k:])
            if info.method == 'take':
                return M.mk_iter(items[:k])
            return M.mk_iter(items[::k])

        @M.trait('Iterator', ['peekable', 'fuse', 'by_ref', 'into_iter'])
        def _iter_id(ex, args, info):
            return args[0]

        @M.trait('Iterator', 'collect')
        @M.trait('FromIterator', 'from_iter')
        def _collect(ex, args, info):
            items = M.drain(ex, args[0])
            ty = info.dest_ty or info.generics
            if info.trait == 'FromIterator':
                ty = info.self_ty
            elif info.generics and info.generics.startswith('<'):
                ty = info.generics[1:-1]
            h = head_name(ty)
            if h == 'Result' or h == 'Option':
                inner = re.match(r'^\s*(?:std::\w+::)*(?:Result|Option)<(.*)>\s*$', ty, re.S)
                inner_ty = parse.split_top(inner.group(1))[0] if inner else ''
                out = []
                for it in items:
                    ex.force(it)
                    if it.variant in ('Err', 'None'):
                        return it
                    out.append(it.f[0])
                c = M.collect_into(ex, inner_ty, out)
                return Ok(c) if h == 'Result' else Some(c)
            return M.collect_into(ex, ty, items)

        @M.trait('Extend', 'extend')
        def _extend(ex, args, info):
            tgt = deref(args[0])
            items = M.drain(ex, args[1])
            if isinstance(tgt, VecM):
                tgt.items.extend(clone_val(deref(x)) if isinstance(x, Ptr) else x for x in items)
            elif isinstance(tgt, MapM):
                for it in items:
                    M.map_insert(ex, tgt, it.f[0], it.f[1])
            elif isinstance(tgt, SetM):
                for it in items:
                    M.set_insert(ex, tgt, it)
            else:
                raise Unsupported('extend of %s' % type(tgt).__name__)
            return Unit()

        @M.trait('Iterator', ['any', 'all'])
        def _any_all(ex, args, info):
            it = M.as_iter(ex, args[0])
            want = info.method == 'any'
            while True:
                r = ex.force(it.nextf(ex))
                if r.variant == 'None':
                    return mk_bool(not want)
                k = ex.call_value(args[1], [r.f[0]])
                if ex.branch(k.t) == want:
                    return mk_bool(want)

        @M.trait('Iterator', ['find', 'position', 'find_map'])
        def _find(ex, args, info):
            it = M.as_iter(ex, args[0])
            i = 0
            while True:
                r = ex.force(it.nextf(ex))
                if r.variant == 'None':
                    return r
                if info.method == 'find_map':
                    k = ex.force(ex.call_value(args[1], [r.f[0]]))
                    if k.variant == 'Some':
                        return k
                else:
                    k = ex.call_value(args[1], [Ptr(Cell(r.f[0]))] if info.method == 'find' else [r.f[0]])
                    if ex.branch(k.t):
                        return r if info.method == 'find' else Some(mk_int(i, 'usize'))
                i += 1

        @M.trait('Iterator', ['for_each', 'count', 'last', 'fold', 'sum', 'max', 'min', 'nth'])
        def _consume(ex, args, info):
            items = M.drain(ex, args[0])
            m = info.method
            if m == 'for_each':
                for x in items:
                    ex.call_value(args[1], [x])
                return Unit()
            if m == 'count':
                return mk_int(len(items), 'usize')
            if m == 'last':
                return Some(items[-1]) if items else NoneV()
            if m == 'fold':
                acc = args[1]
                for x in items:
                    acc = ex.call_value(args[2], [acc, x])
                return acc
            if m == 'nth':
                k = ex.concretize(args[1], 0, len(items) + 1, 'nth')
                return Some(items[k]) if k < len(items) else NoneV()
            raise Unsupported('Iterator::' + m)

        @M.trait('ExactSizeIterator', 'len')
        def _iter_len(ex, args, info):
            it = deref(args[0])
            n = it.exact_len() if isinstance(it, IterM) else None
            if n is None:
                raise Unsupported('ExactSizeIterator::len on %r' % (getattr(it, 'kind', it),))
            return mk_int(n, 'usize')

        # ---------- maps / sets
        @M.path(MAPS | SETS, ['new', 'default', 'with_capacity', 'with_hasher', 'with_capacity_and_hasher'])
        def _map_new(ex, args, info):
            if info.method.startswith('with_capacity'):
                M.record_alloc(ex, args[0], None, info.callee)
            return M.new_container(info.self_ty_head)

        @M.trait('HashMapExt', ['new', 'with_capacity'])
        @M.trait('HashSetExt', ['new', 'with_capacity'])
        def _ahash_ext(ex, args, info):
            if info.method == 'with_capacity':
                M.record_alloc(ex, args[0], None, info.callee)
            return M.new_container(info.self_ty)

        @M.path(MAPS, ['get', 'get_mut'])
        def _map_get(ex, args, info):
            mp, key = deref(args[0]), deref(args[1])
            if info.method == 'get' and mp.entries and all(isinstance(c.v, Sc) for _, c in mp.entries):
                # scalar values: merged lookup (no fork per entry)
                eqs = [z3.simplify(M.val_eq(ex, key, k)) for k, _ in mp.entries]
                val = mp.entries[-1][1].v.t
                for e, (k, c) in zip(reversed(eqs[:-1]), reversed(mp.entries[:-1])):
                    val = z3.If(e, c.v.t, val)
                found = z3.simplify(z3.Or(eqs))
                ty = mp.entries[0][1].v.ty
                return Enum('Option', None, alts=[(found, 'Some', [Ptr(Cell(Sc(z3.simplify(val), ty)))]), (z3.Not(found), 'None', [])])
            i = M.map_find(ex, mp, key)
            return NoneV() if i is None else Some(Ptr(mp.entries[i][1]))

        @M.path(MAPS, ['get_key_value'])
        def _map_get_kv(ex, args, info):
            mp, key = deref(args[0]), deref(args[1])
            i = M.map_find(ex, mp, key)
            return NoneV() if i is None else Some(Struct([Ptr(Cell(mp.entries[i][0])), Ptr(mp.entries[i][1])]))

        @M.path(MAPS, 'contains_key')
        def _contains_key(ex, args, info):
            return M.map_contains(ex, deref(args[0]), deref(args[1]))

        @M.path(SETS, 'contains')
        def _set_contains(ex, args, info):
            return M.set_contains(ex, deref(args[0]), deref(args[1]))

        @M.path(MAPS, 'insert')
        def _map_insert(ex, args, info):
            return M.map_insert(ex, deref(args[0]), args[1], args[2])

        @M.path(SETS, 'insert')
        def _set_insert(ex, args, info):
            return M.set_insert(ex, deref(args[0]), args[1])

        @M.path(MAPS, ['remove', 'remove_entry'])
        def _map_remove(ex, args, info):
            mp, key = deref(args[0]), deref(args[1])
            i = M.map_find(ex, mp, key, 'map remove')
            if i is None:
                return NoneV()
            k, c = mp.entries.pop(i)
            return Some(c.v) if info.method == 'remove' else Some(Struct([k, c.v]))

        @M.path(SETS, ['remove', 'take'])
        def _set_remove(ex, args, info):
            st, key = deref(args[0]), deref(args[1])
            if info.method == 'remove':
                hits = [z3.simplify(h) for h in M.set_hits(ex, st, key)]
                items, guards = [], []
                for k, g, h in zip(st.items, st.guards, hits):
                    if z3.is_true(h):
                        continue
                    items.append(k)
                    guards.append(g if z3.is_false(h) else z3.simplify(z3.Not(h) if g is None else z3.And(g, z3.Not(h))))
                st.items, st.guards = items, guards
                return Sc(z3.simplify(z3.Or(hits)) if hits else z3.BoolVal(False), 'bool')
            M.set_resolve(ex, st)
            eqs = [z3.simplify(M.val_eq(ex, key, k)) for k in st.items]
            conds = list(eqs) + [z3.And([z3.Not(e) for e in eqs]) if eqs else z3.BoolVal(True)]
            i = ex.choose(conds, 'set take')
            if i == len(st.items):
                return NoneV()
            st.guards.pop(i)
            return Some(st.items.pop(i))

        @M.path(MAPS | SETS, 'clear')
        def _map_clear(ex, args, info):
            t = deref(args[0])
            if isinstance(t, MapM):
                t.entries[:] = []
            else:
                t.items[:] = []
                t.guards[:] = []
            return Unit()

        @M.path(MAPS, 'entry')
        def _map_entry(ex, args, info):
            mp, key = deref(args[0]), args[1]
            i = M.map_find(ex, mp, key, 'map entry')
            # std: hash_map::Entry { Occupied, Vacant } but btree_map::Entry { Vacant, Occupied }
            en = 'BTreeEntry' if (getattr(mp, 'ordered', False) or getattr(mp, 'kind', '') == 'BTreeMap') else 'Entry'
            if i is None:
                return Enum(en, 'Vacant', [Opaque('VacantEntry', (mp, key))])
            return Enum(en, 'Occupied', [Opaque('OccupiedEntry', (mp, i))])

        @M.path('Entry', ['or_insert', 'or_insert_with', 'or_default', 'and_modify'])
        def _entry_or_insert(ex, args, info):
            e = ex.force(args[0])
            if info.method == 'and_modify':
                if e.variant == 'Occupied':
                    mp, i = e.f[0].payload
                    ex.call_value(args[1], [Ptr(mp.entries[i][1])])
                return e
            if e.variant == 'Occupied':
                mp, i = e.f[0].payload
                return Ptr(mp.entries[i][1])
            mp, key = e.f[0].payload
            if info.method == 'or_insert':
                v = args[1]
            elif info.method == 'or_insert_with':
                v = ex.call_value(args[1], [])
            else:
                ty = info.dest_ty or ''
                m = re.match(r'&mut (.*)$', ty.strip())
                v = M.new_container(m.group(1)) if m else None
                if v is None:
                    raise Unsupported('Entry::or_default for ' + ty)
            mp.entries.append([key, Cell(v)])
            return Ptr(mp.entries[-1][1])

        @M.path('OccupiedEntry', ['get', 'get_mut', 'into_mut', 'insert', 'remove', 'key'])
        def _occupied(ex, args, info):
            o = deref(args[0])
            mp, i = o.payload
            if info.method in ('get', 'get_mut', 'into_mut'):
                return Ptr(mp.entries[i][1])
            if info.method == 'insert':
                old = mp.entries[i][1].v
                mp.entries[i][1].v = args[1]
                return old
            if info.method == 'remove':
                return mp.entries.pop(i)[1].v
            return Ptr(Cell(mp.entries[i][0]))

        @M.path('VacantEntry', ['insert', 'key', 'into_key'])
        def _vacant(ex, args, info):
            o = deref(args[0])
            mp, key = o.payload
            if info.method == 'insert':
                mp.entries.append([key, Cell(args[1])])
                return Ptr(mp.entries[-1][1])
            return Ptr(Cell(key)) if info.method == 'key' else key

        # ---------- lazy_static!: <NAME as Deref>::deref -> &'static T, initialiser interpreted once per path
        @M.rx(r'^<([A-Z][A-Z0-9_]*) as Deref>::deref$', 'lazy_static deref')
        def _lazy(ex, m, args, callee, dest):
            name = m.group(1)
            st = ex.world.__dict__.setdefault('statics', {})
            if name not in st:
                init = None
                needle = '<%s as Deref>::deref::__static_ref_initialize' % name
                for f in ex.prog.fns:
                    if f.name.endswith('::deref::__stability') and any(s_[0] == 'call' and needle in s_[2] for b in f.blocks.values() for s_ in b):
                        init = ex.prog.by_full.get((f.crate, f.name[:-len('__stability')] + '__static_ref_initialize'))
                        break
                if init is None:
                    raise Unsupported('lazy_static initialiser of %s not found' % name)
                st[name] = Cell(ex.call_fn(init, []))
            return Ptr(st[name])

        # ---------- Box / mem
        @M.path('Box', ['new', 'pin'])
        def _box_new(ex, args, info):
            return Ptr(Cell(args[0]), boxed=True)

        @M.rx(r'^(std|core)::mem::(swap|replace|take|drop|forget|size_of|discriminant)\b', 'mem::*')
        def _mem(ex, m, args, callee, dest):
            what = m.group(2)
            if what == 'swap':
                a, b = args[0].load(), args[1].load()
                args[0].store(b); args[1].store(a)
                return Unit()
            if what == 'replace':
                old = args[0].load()
                args[0].store(args[1])
                return old
            if what == 'take':
                old = args[0].load()
                fresh = None
                if isinstance(old, VecM):
                    fresh = VecM([], old.kind)
                elif isinstance(old, MapM):
                    fresh = MapM([], old.ordered, old.kind)
                elif isinstance(old, SetM):
                    fresh = SetM([], old.ordered, old.kind)
                elif isinstance(old, StrV):
                    fresh = StrV([], None)
                elif isinstance(old, Enum) and old.ename == 'Option':
                    fresh = NoneV()
                elif isinstance(old, Sc) and old.ty != 'bool':
                    fresh = Sc(z3.BitVecVal(0, old.t.size()), old.ty)
                if fresh is None:
                    raise Unsupported('mem::take of %s' % type(old).__name__)
                args[0].store(fresh)
                return old
            if what == 'drop':
                ex.models.drop_value(ex, args[0])
                return Unit()
            if what == 'forget':
                return Unit()
            raise Unsupported(callee)

        @M.rx(r'^((std|core)::(hint::black_box|hint::must_use|convert::identity)\b|must_use(::<.*>)?$)', 'identity')
        def _identity(ex, m, args, callee, dest):
            return args[0]

        # ---------- integers / floats
        @M.rx(r'^core::num::<impl (u8|i8|u16|i16|u32|i32|u64|i64|u128|i128|usize|isize)>::(\w+)', 'integer intrinsics')
        def _int(ex, m, args, callee, dest):
            return M.int_method(ex, m.group(1), m.group(2), args)

        @M.rx(r'^(?:core|std)::(f32|f64)::<impl (?:f32|f64)>::(\w+)', 'float intrinsics')
        def _flt(ex, m, args, callee, dest):
            return M.float_method(ex, m.group(1), m.group(2), args)

        @M.rx(r'^<(u8|i8|u16|i16|u32|i32|u64|i64|usize|isize) as (?:std::convert::)?(?:TryFrom|From)<(u8|i8|u16|i16|u32|i32|u64|i64|usize|isize|bool)>>::(try_from|from)$', 'integer conversion')
        def _tryfrom(ex, m, args, callee, dest):
            dst, src, how = m.group(1), m.group(2), m.group(3)
            v = args[0]
            if src == 'bool':
                r = ex.cast(v, dst, 'IntToInt')
                return Ok(r) if how == 'try_from' else r
            r = ex.cast(v, dst, 'IntToInt')
            if how == 'from':
                return r
            back = ex.cast(r, src, 'IntToInt')
            fits = back.t == v.t
            if (dst in SIGNED) != (src in SIGNED):
                # sign must also be non-negative on both sides
                w = INT_W[src]
                if src in SIGNED:
                    fits = z3.And(fits, v.t >= 0)
                else:
                    fits = z3.And(fits, r.t >= 0) if INT_W[dst] <= INT_W[src] else fits
            if ex.branch(z3.simplify(fits)):
                return Ok(r)
            return Err(Opaque('TryFromIntError'))

        @M.rx(r'^<(u8|i8|u16|i16|u32|i32|u64|i64|u128|usize|isize|bool|f32|f64|char) as (PartialOrd|Ord|PartialEq)>::(\w+)$', 'scalar comparison')
        def _scalar_cmp(ex, m, args, callee, dest):
            a, b = deref(args[0]), deref(args[1])
            op = {'lt': 'Lt', 'le': 'Le', 'gt': 'Gt', 'ge': 'Ge', 'eq': 'Eq', 'ne': 'Ne'}.get(m.group(3))
            if op:
                return ex.binop(op, a, b)
            if m.group(3) in ('cmp', 'partial_cmp'):
                r = ex.binop('Cmp', a, b)
                return r if m.group(3) == 'cmp' else Some(r)
            if m.group(3) in ('max', 'min'):
                lt = ex.binop('Lt', a, b)
                pick_b = lt.t if m.group(3) == 'max' else z3.Not(lt.t)
                return Sc(z3.simplify(z3.If(pick_b, b.t, a.t)), a.ty)
            raise Unsupported(callee)

        # ---------- io::Error and friends
        @M.rx(r'^(std::io::Error::new|std::io::Error::other|<std::io::Error as From<.*>>::from|std::io::Error::from)', 'io::Error (opaque)')
        def _ioerr(ex, m, args, callee, dest):
            kind = None
            for a in args:
                if isinstance(a, Enum) and a.ename == 'ErrorKind':
                    kind = a.variant
            return Opaque('io::Error', kind or 'Other')

        @M.path('Error', 'kind')
        def _ioerr_kind(ex, args, info):
            e = deref(args[0])
            if isinstance(e, Opaque) and e.what == 'io::Error':
                return Enum('ErrorKind', e.payload or 'Other')
            raise Unsupported('Error::kind of %r' % (e,))

    # ------------------------------------------------------------------ misc helpers
    def clone_value(self, ex, v):
        """Clone::clone of an owned value; reference-counted handles go through their hooks (count increments)"""
        hooks = getattr(self, 'clone_hooks', None)
        if not hooks:
            return clone_val(v)
        h = hooks.get(type(v).__name__)
        if h is not None:
            return h(ex, v)
        if isinstance(v, Struct):
            return Struct([self.clone_value(ex, x) for x in v.f], v.name)
        if isinstance(v, Enum):
            ex.force(v)
            return Enum(v.ename, v.variant, [self.clone_value(ex, x) for x in v.f])
        if isinstance(v, ArrayV):
            return ArrayV([self.clone_value(ex, x) for x in v.items])
        if isinstance(v, VecM):
            return VecM([self.clone_value(ex, x) for x in v.items], v.kind)
        if isinstance(v, MapM):
            return MapM([[self.clone_value(ex, k), Cell(self.clone_value(ex, c.v))] for k, c in v.entries], v.ordered, v.kind)
        return clone_val(v)

    def length(self, v):
        if isinstance(v, SliceRef):
            return v.n
        if isinstance(v, (VecM, ArrayV, SetM)):
            return len(v.items)
        if isinstance(v, MapM):
            return len(v.entries)
        if isinstance(v, StrV):
            if v.data is None:
                raise Unsupported('length of opaque string')
            return len(v.data)
        raise Unsupported('len of %s' % type(v).__name__)

    def elem_ptr(self, v, i):
        if isinstance(v, SliceRef):
            return v.elem_ptr(i)
        return Ptr(v.cell, v.path + (i,))

    def record_alloc(self, ex, n, elem, callee):
        if isinstance(n, Sc) and n.concrete() is None:
            ex.alloc_requests.append((callee, n, ex.site))

    def alloc_len(self, ex, n, callee, limit=None):
        c = n.concrete()
        if c is not None:
            if c > 4096:
                raise BoundExceeded('allocation of %d elements' % c)
            return c
        ex.alloc_requests.append((callee, n, ex.site))
        lim = limit if limit is not None else getattr(ex, 'alloc_limit', 8)
        try:
            return ex.concretize(n, 0, lim + 1, 'allocation size')
        except BoundExceeded:
            # larger than anything the bounded input can fill: any such size behaves alike for the readers that follow
            # (they hit end of input); the request itself stays recorded for the allocation-size obligation
            return lim + 1

    def convert(self, ex, v, target, info):
        """Into/From between model values (mostly identities on our representations)."""
        if target in ('Ustr', 'String', 'str', 'Cow', 'PathBuf', 'OsString'):
            v = deref(v) if isinstance(v, Ptr) else v
            if isinstance(v, Enum) and v.ename == 'Cow' and target != 'Cow':
                ex.force(v)
                inner = deref(v.f[0])
                return StrV(list(inner.data) if inner.data is not None else None, inner.sid) if isinstance(inner, StrV) else inner
            return v
        if target in ('Ref', 'UniqueId'):
            return v
        if target in ('VecDeque', 'Vec'):
            if isinstance(v, ArrayV):
                return VecM(list(v.items), target)
            if isinstance(v, VecM):
                return VecM(list(v.items), target)
            if isinstance(v, SliceRef):
                return VecM([clone_val(x) for x in v.items()], target)
            if isinstance(v, StrV):
                return VecM(list(v.data), target)
        if target in ('Arc', 'Rc', 'Box'):
            h = self.table.get((target, 'new'))
            if h is not None:
                return h(ex, [v], info)
        if target == 'Variant':
            return self.to_variant(ex, v)
        if target in ('f32', 'f64') and isinstance(v, Sc):
            return ex.cast(v, target, 'FloatToFloat' if v.ty in ('f32', 'f64') else 'IntToFloat')
        if target in INT_W and isinstance(v, Sc):
            return ex.cast(v, target, 'IntToInt')
        # fall back to an interpreted `From` impl in the repository
        f = ex.prog.resolve('<%s as From<%s>>::from' % (target, info.self_ty if info.trait == 'Into' else (info.targs or '')), getattr(ex, 'cur_fn', None)) if target else None
        if f is not None:
            return ex.call_fn(f, [v])
        raise Unsupported('conversion into %s of %s (%s)' % (target, type(v).__name__, info.callee))

    def convert_error(self, ex, err, want, info):
        if want is None:
            return err
        if isinstance(err, Opaque) and err.what == 'io::Error' and want == 'Error' and 'io::Error' in info.self_ty:
            return err
        if isinstance(err, (Struct, Enum)) and (getattr(err, 'name', None) == want or getattr(err, 'ename', None) == want):
            return err
        src = err.what.split('::')[-1] if isinstance(err, Opaque) else (getattr(err, 'name', None) or getattr(err, 'ename', None) or '')
        try:
            f = ex.prog.resolve('<%s as From<%s>>::from' % (want, err.what if isinstance(err, Opaque) else src), getattr(ex, 'cur_fn', None))
        except Unsupported:
            f = None
        if f is not None:
            return ex.call_fn(f, [err])
        return Opaque('error:' + want, err)

    def to_variant(self, ex, v):
        raise Unsupported('Into<Variant> for %r' % (v,))

    def int_method(self, ex, ty, name, args):
        a = deref(args[0]) if args else None
        w = INT_W[ty]
        if name in ('from_le_bytes', 'from_be_bytes', 'from_ne_bytes'):
            bs = [x.t for x in a.items]
            if name != 'from_be_bytes':
                bs = bs[::-1]
            return Sc(z3.simplify(z3.Concat(*bs)) if len(bs) > 1 else bs[0], ty)
        if name in ('to_le_bytes', 'to_be_bytes', 'to_ne_bytes'):
            n = w // 8
            bs = [Sc(z3.simplify(z3.Extract(8 * i + 7, 8 * i, a.t)), 'u8') for i in range(n)]
            if name == 'to_be_bytes':
                bs = bs[::-1]
            return ArrayV(bs)
        if name in ('rotate_left', 'rotate_right'):
            k = args[1].concrete()
            if k is None:
                raise Unsupported('symbolic rotate amount')
            f = z3.RotateLeft if name == 'rotate_left' else z3.RotateRight
            return Sc(z3.simplify(f(a.t, k % w)), ty)
        if name in ('wrapping_add', 'wrapping_sub', 'wrapping_mul'):
            return ex.binop({'wrapping_add': 'Add', 'wrapping_sub': 'Sub', 'wrapping_mul': 'Mul'}[name], a, args[1])
        if name == 'wrapping_neg':
            return Sc(z3.simplify(-a.t), ty)
        if name in ('checked_add', 'checked_sub', 'checked_mul'):
            r = ex.binop({'checked_add': 'AddWithOverflow', 'checked_sub': 'SubWithOverflow', 'checked_mul': 'MulWithOverflow'}[name], a, args[1])
            return Enum('Option', None, alts=[(z3.Not(r.f[1].t), 'Some', [r.f[0]]), (r.f[1].t, 'None', [])])
        if name in ('saturating_sub', 'saturating_add'):
            r = ex.binop('SubWithOverflow' if name == 'saturating_sub' else 'AddWithOverflow', a, args[1])
            if ty in SIGNED:
                raise Unsupported('signed saturating op')
            sat = z3.BitVecVal(0 if name == 'saturating_sub' else (1 << w) - 1, w)
            return Sc(z3.simplify(z3.If(r.f[1].t, sat, r.f[0].t)), ty)
        if name == 'count_ones':
            t = sum([z3.ZeroExt(31, z3.Extract(i, i, a.t)) for i in range(w)][1:], z3.ZeroExt(31, z3.Extract(0, 0, a.t)))
            return Sc(z3.simplify(t), 'u32')
        if name in ('abs',):
            return Sc(z3.simplify(z3.If(a.t < 0, -a.t, a.t)), ty)
        if name in ('swap_bytes', 'to_be', 'from_be'):
            n = w // 8
            bs = [z3.Extract(8 * i + 7, 8 * i, a.t) for i in range(n)]
            return Sc(z3.simplify(z3.Concat(*bs)), ty)
        if name in ('to_le', 'from_le'):
            return a
        if name in ('min', 'max'):
            b = args[1]
            lt = ex.binop('Lt', a, b).t
            return Sc(z3.simplify(z3.If(lt if name == 'min' else z3.Not(lt), a.t, b.t)), ty)
        if name == 'pow':
            raise Unsupported('pow')
        if name in ('is_power_of_two',):
            return Sc(z3.simplify(z3.And(a.t != 0, (a.t & (a.t - 1)) == 0)), 'bool')
        raise Unsupported('integer method %s::%s' % (ty, name))

    def float_method(self, ex, ty, name, args):
        a = deref(args[0]) if args else None
        sort = z3.Float32() if ty == 'f32' else z3.Float64()
        ity = 'u32' if ty == 'f32' else 'u64'
        w = INT_W[ty]
        if name == 'to_bits':
            return Sc(a.t, ity)
        if name == 'from_bits':
            return Sc(a.t, ty)
        if name in ('to_le_bytes', 'to_be_bytes', 'to_ne_bytes'):
            return self.int_method(ex, ity, name, [Sc(a.t, ity)])
        if name in ('from_le_bytes', 'from_be_bytes', 'from_ne_bytes'):
            r = self.int_method(ex, ity, name, args)
            return Sc(r.t, ty)
        x = z3.fpBVToFP(a.t, sort)
        if name == 'abs':
            return Sc(z3.simplify(a.t & z3.BitVecVal((1 << (w - 1)) - 1, w)), ty)
        if name == 'copysign':
            b = deref(args[1])
            sign = z3.BitVecVal(1 << (w - 1), w)
            return Sc(z3.simplify((a.t & ~sign) | (b.t & sign)), ty)
        if name in ('is_nan', 'is_infinite', 'is_finite', 'is_sign_negative', 'is_sign_positive'):
            r = {'is_nan': lambda: z3.fpIsNaN(x), 'is_infinite': lambda: z3.fpIsInf(x),
                 'is_finite': lambda: z3.Not(z3.Or(z3.fpIsNaN(x), z3.fpIsInf(x))),
                 'is_sign_negative': lambda: z3.Extract(w - 1, w - 1, a.t) == 1,
                 'is_sign_positive': lambda: z3.Extract(w - 1, w - 1, a.t) == 0}[name]()
            return Sc(z3.simplify(r), 'bool')
        if name in ('round', 'floor', 'ceil', 'trunc'):
            rm = {'round': z3.RNA(), 'floor': z3.RTN(), 'ceil': z3.RTP(), 'trunc': z3.RTZ()}[name]
            return Sc(z3.simplify(z3.fpToIEEEBV(z3.fpRoundToIntegral(rm, x))), ty)
        if name == 'clamp':
            lo, hi = z3.fpBVToFP(deref(args[1]).t, sort), z3.fpBVToFP(deref(args[2]).t, sort)
            # f32::clamp: NaN stays NaN; x < lo -> lo ; x > hi -> hi
            r = z3.If(z3.fpLT(x, lo), deref(args[1]).t, z3.If(z3.fpGT(x, hi), deref(args[2]).t, a.t))
            return Sc(z3.simplify(r), ty)
        if name in ('max', 'min'):
            b = deref(args[1])
            y = z3.fpBVToFP(b.t, sort)
            r = z3.fpMax(x, y) if name == 'max' else z3.fpMin(x, y)
            return Sc(z3.simplify(z3.fpToIEEEBV(r)), ty)
        if name == 'sqrt':
            return Sc(z3.simplify(z3.fpToIEEEBV(z3.fpSqrt(z3.RNE(), x))), ty)
        raise Unsupported('float method %s::%s' % (ty, name))
