"""C12 M13: UniqueId::now() under thread interleavings.  T threads call the real `UniqueId::now` k times each; the clock returns
arbitrary instants (symbolic seconds, or an error), the random source returns an arbitrary value of its documented range, the
global INDEX counter starts at an arbitrary value; the scheduler switches at every atomic operation.  Every Ok result must be
distinct from every other one (as a whole id), in every interleaving - which is the freshness contract the WeakDom obligations
(C09-C12) assume for `UniqueId::now`."""
import time, os, json
import z3
from .values import *
from .interp import Exec, Stats
from .rbx_models import RbxModels, World
from .models import deref
from . import threads as T


def make_models(prog, twin=False):
    M = RbxModels()
    M.table.pop(('UniqueId', 'now'), None)
    M.overrides.discard(('UniqueId', 'now'))
    T.register(M, lambda ex: getattr(ex.world, 'sched', None))

    @M.rx(r'^(std::time::)?SystemTime::now$', 'SystemTime::now (arbitrary instant)')
    def _now(ex, m, args, callee, dest):
        return Opaque('SystemTime', None)

    @M.rx(r'^<EPOCH as Deref>::deref$', 'EPOCH (opaque instant)')
    def _epoch(ex, m, args, callee, dest):
        return Ptr(Cell(Opaque('SystemTime', 'epoch')))

    @M.rx(r'^(std::time::)?SystemTime::duration_since$', 'duration_since (arbitrary seconds, or the clock is before the epoch)')
    def _since(ex, m, args, callee, dest):
        if ex.nondet(2, 'clock before epoch') == 1:
            return Err(Opaque('SystemTimeError'))
        return Ok(Struct([sym_int(ex.fresh('secs'), 'u64')], 'Duration'))

    @M.rx(r'^(core::time::|std::time::)?Duration::as_secs$', 'Duration::as_secs')
    def _secs(ex, m, args, callee, dest):
        return deref(args[0]).f[0]

    @M.rx(r'^(rand::)?thread_rng$', 'thread_rng')
    def _rng(ex, m, args, callee, dest):
        return Opaque('ThreadRng')

    @M.rx(r'^<ThreadRng as Rng>::gen_range::<i64, std::ops::Range<i64>>$', 'gen_range (arbitrary value of the range)')
    def _gen(ex, m, args, callee, dest):
        r = args[1]
        v = sym_int(ex.fresh('rand'), 'i64')
        ex.assume(z3.And(v.t >= r.f[0].t, v.t < r.f[1].t))
        return v
    M.drop_handlers['ThreadRng'] = lambda ex, v: None
    if twin:
        # vacuity twin: the counter update split into a load and a store with a scheduling point in between
        @M.rx(r'Atomic(U32|::<u32>)::fetch_add$', 'TWIN non-atomic fetch_add')
        def _racy(ex, m, args, callee, dest):
            a = deref(args[0])
            sch = getattr(ex.world, 'sched', None)
            if sch is not None:
                sch.point('twin load')
            old = a.f[0]
            if sch is not None:
                sch.point('twin store')
            a.f[0] = ex.binop('Add', old, args[1])
            return old
    # these contracts take precedence over the generic lazy_static model
    M.regex.sort(key=lambda e: 0 if ('EPOCH' in e[1] or 'TWIN' in e[1]) else 1)
    return M


def explore(prog, cfg, stats=None, budget_s=600, max_runs=200000):
    """cfg: threads, calls, gran ('fine'), pb"""
    stats = stats or Stats()
    F_NOW = prog.resolve('UniqueId::now')
    if F_NOW is None:
        raise Unsupported('UniqueId::now not found in MIR')
    M = make_models(prog, cfg.get('twin', False))
    res = dict(paths=0, ok=0, err=0, infeasible=0, violations=[], unsupported=None)
    work, t0, seen = [[]], time.time(), set()
    while work:
        dec = work.pop()
        ex = Exec(prog, M, dec, stats)
        ex.world = World()
        sched = T.Sched(ex, cfg.get('gran', 'fine'), cfg.get('pb'))
        got = []
        try:
            # arbitrary starting value of the global counter
            st = ex.world.__dict__.setdefault('statics', {})
            start = sym_int('index0', 'u32')
            st['unique_id::INDEX'] = Cell(Struct([start], 'Atomic'))
            st['INDEX'] = st['unique_id::INDEX']
            ex.world.sched = sched

            def body_for(tid):
                def body(t):
                    for k in range(cfg['calls']):
                        r = ex.force(ex.call_fn(F_NOW, []))
                        if r.variant == 'Ok':
                            got.append((tid, k, r.f[0]))
                return body
            for tid in range(cfg['threads']):
                sched.spawn(body_for(tid))
            sched.run()
            ex.world.sched = None
            fi = {f: prog.field('UniqueId', f) for f in ('index', 'time', 'random')}
            import itertools
            for (ta, ka, a), (tb, kb, b) in itertools.combinations(got, 2):
                same = z3.And([a.f[fi[f]].t == b.f[fi[f]].t for f in fi])
                if ex.sat(same):
                    ex.assume(same)
                    raise Violation('C12.now[duplicate_id]: call %d of thread %d and call %d of thread %d can return the same UniqueId (schedule %s)' % (ka, ta, kb, tb, list(sched.trace)[:12]))
            res['paths'] += 1
            res['ok'] += 1
            stats.paths += 1
        except Infeasible:
            res['infeasible'] += 1
        except (Violation, PanicPath) as v:
            res['paths'] += 1
            label = v.label if isinstance(v, Violation) else 'C12.panic[now]: UniqueId::now panics: %s' % v.msg
            if label.split(':')[0] not in seen:
                seen.add(label.split(':')[0])
                ok_, path_, detail_ = (False, None, 'twin') if cfg.get('twin') else confirm(cfg, label, list(sched.trace))
                res['violations'].append(dict(label=label, case=dict(cfg), confirmed=ok_, replay=path_, replay_detail=detail_))
            break
        except (Unsupported, BoundExceeded) as u:
            res['unsupported'] = '%s: %s' % (type(u).__name__, u)
            break
        work.extend(ex.pending)
        if res['paths'] + res['infeasible'] > max_runs or time.time() - t0 > budget_s:
            res['unsupported'] = 'run / time bound exceeded after %d runs' % res['paths']
            break
    return res


def confirm(cfg, label, trace):
    """native: there are no yield hooks inside UniqueId::now, so the schedule cannot be forced; the race is confirmed by a stress
    run of the real function on real threads (tools/replayer uniqueid-race): any duplicate id confirms it"""
    from .. import common as C, gen
    rc, out, _ = C.run([gen.tool('replayer'), 'uniqueid-race', '4', '400000'], timeout=300)
    os.makedirs(C.REPLAYS, exist_ok=True)
    path = os.path.join(C.REPLAYS, 'C12_now_race.json')
    try:
        r = json.loads(out.strip().split('\n')[-1])
    except Exception:
        r = {}
    # whole ids also carry 63 random bits, so a native duplicate of the whole id is not observable; the index is the component the
    # code makes distinct - a repeated index is the native witness (the clock and the random source are arbitrary in the property)
    ok = bool(r.get('duplicates')) or bool(r.get('duplicate_indices')) or 'PANIC' in out
    json.dump(dict(property='C12', label=label, schedule=trace, native=out[-400:], confirmed=ok, how='tools/replayer uniqueid-race 4 400000 (stress run, 4 threads x 400000 calls)'), open(path, 'w'), indent=1)
    return ok, path, 'native stress run: ' + out.strip()[-160:]
