"""Parser for rustc's `-Zunpretty=mir -Zmir-include-spans=yes` text.

Produces Fn objects whose blocks hold pre-parsed statements / terminators (tuples), so the interpreter does no
text processing while executing.  Anything the parser does not understand is kept as ('unparsed', text) and makes
the interpreter stop with Unsupported when (and only when) execution reaches it.
"""
import re, os


class ParseError(Exception):
    pass


# ----------------------------------------------------------------------------- text helpers
OPEN, CLOSE = '([{<', ')]}>'


def split_top(s, sep=','):
    """Split s at top-level sep (ignoring nesting of ()[]{}<> and string/char literals; '->' and '=>' are not brackets)."""
    out, depth, cur, i, n = [], 0, [], 0, len(s)
    while i < n:
        ch = s[i]
        if ch == '"':
            j = i + 1
            while j < n and s[j] != '"':
                j += 2 if s[j] == '\\' else 1
            cur.append(s[i:j + 1]); i = j + 1; continue
        if ch == "'" and i + 2 < n and (s[i + 2] == "'" or (s[i + 1] == '\\' and "'" in s[i + 2:i + 8])):
            j = s.index("'", i + 2 if s[i + 1] != '\\' else i + 3)
            cur.append(s[i:j + 1]); i = j + 1; continue
        if ch == '>' and i > 0 and s[i - 1] in '-=':
            cur.append(ch); i += 1; continue
        if ch in OPEN:
            depth += 1
        elif ch in CLOSE:
            depth -= 1
        if ch == sep and depth == 0:
            out.append(''.join(cur).strip()); cur = []
        else:
            cur.append(ch)
        i += 1
    last = ''.join(cur).strip()
    if last:
        out.append(last)
    return out


def find_matching(s, i):
    """s[i] is an opening bracket; return index of its match (string aware)."""
    depth, n = 0, len(s)
    j = i
    while j < n:
        ch = s[j]
        if ch == '"':
            j += 1
            while j < n and s[j] != '"':
                j += 2 if s[j] == '\\' else 1
        elif ch == '>' and j > 0 and s[j - 1] in '-=':
            pass
        elif ch in OPEN:
            depth += 1
        elif ch in CLOSE:
            depth -= 1
            if depth == 0:
                return j
        j += 1
    raise ParseError('unbalanced: ' + s)


def strip_stmt(line):
    """'   _3 = foo; // scope ...' -> ('_3 = foo', span or None).  String aware."""
    s = line.strip()
    i, n, depth = 0, len(s), 0
    while i < n:
        ch = s[i]
        if ch == '"':
            i += 1
            while i < n and s[i] != '"':
                i += 2 if s[i] == '\\' else 1
        elif ch == '/' and s[i:i + 2] == '//' and depth == 0:
            break
        elif ch == ';' and depth == 0 and (i + 1 == n or s[i + 1:].lstrip().startswith('//')):
            rest = s[i + 1:]
            m = re.search(r'scope \d+ at (\S+?):(\d+):(\d+): (\d+):(\d+)', rest)
            span = (m.group(1), int(m.group(2)), int(m.group(3))) if m else None
            return s[:i], span
        elif ch == '>' and i > 0 and s[i - 1] in '-=':
            pass
        elif ch in OPEN:
            depth += 1
        elif ch in CLOSE:
            depth -= 1
        i += 1
    return s.rstrip(';'), None


# ----------------------------------------------------------------------------- places / operands / rvalues
def parse_place(p):
    p = p.strip()
    # trailing index projections:  P[_3]  P[1 of 4]  P[2..5]  P[2:-1]
    if p.endswith(']'):
        # find the matching '[' for the final ']'
        depth = 0
        for i in range(len(p) - 1, -1, -1):
            if p[i] == ']':
                depth += 1
            elif p[i] == '[':
                depth -= 1
                if depth == 0:
                    break
        base, idx = p[:i], p[i + 1:-1]
        if base:
            b = parse_place(base)
            m = re.fullmatch(r'_\d+', idx)
            if m:
                return ('index', b, idx)
            m = re.fullmatch(r'(-?)(\d+) of (\d+)', idx)
            if m:
                return ('cindex', b, int(m.group(2)), int(m.group(3)), m.group(1) == '-')
            m = re.fullmatch(r'(\d+)\.\.(\d+)', idx)
            if m:
                return ('subslice', b, int(m.group(1)), int(m.group(2)), False)
            m = re.fullmatch(r'(\d+):-(\d+)', idx)
            if m:
                return ('subslice', b, int(m.group(1)), int(m.group(2)), True)
            raise ParseError('index ' + p)
    if re.fullmatch(r'_\d+', p):
        return ('local', p)
    if p.startswith('(') and find_matching(p, 0) == len(p) - 1:
        inner = p[1:-1].strip()
        if inner.startswith('*'):
            return ('deref', parse_place(inner[1:]))
        # field projection: BASE.k: T   (scan top-level '.<digits>: ')
        depth = 0
        i = 0
        n = len(inner)
        last_field = None
        while i < n:
            ch = inner[i]
            if ch == '>' and i > 0 and inner[i - 1] in '-=':
                pass
            elif ch in OPEN:
                depth += 1
            elif ch in CLOSE:
                depth -= 1
            elif ch == '.' and depth == 0:
                m = re.match(r'\.(\d+): ', inner[i:])
                if m:
                    last_field = (i, int(m.group(1)), inner[i + m.end():])
                    break
            elif ch == ' ' and depth == 0 and inner.startswith(' as ', i):
                m = re.fullmatch(r'(\w+)', inner[i + 4:].strip())
                if m:
                    return ('downcast', parse_place(inner[:i]), m.group(1))
                m = re.fullmatch(r'subtype (.*)', inner[i + 4:].strip())
                if m:
                    return parse_place(inner[:i])
            i += 1
        if last_field:
            i, k, ty = last_field
            return ('field', parse_place(inner[:i]), k, ty.strip())
    raise ParseError('place ' + p)


def parse_operand(o):
    o = o.strip()
    m = re.match(r'^(copy|move|no_retag copy) (.*)$', o, re.S)
    if m:
        return (m.group(1) if m.group(1) != 'no_retag copy' else 'copy', parse_place(m.group(2)))
    if o.startswith('const '):
        return ('const', o[6:].strip())
    if re.match(r'^[A-Za-z_<]', o) and not re.match(r'^_\d+$', o):
        return ('const', 'fnitem ' + o)          # bare function item / constructor used as a value
    raise ParseError('operand ' + o)


BINOPS = {'Add', 'Sub', 'Mul', 'Div', 'Rem', 'BitXor', 'BitAnd', 'BitOr', 'Shl', 'Shr', 'Eq', 'Lt', 'Le', 'Ne', 'Ge', 'Gt',
          'Offset', 'Cmp', 'AddWithOverflow', 'SubWithOverflow', 'MulWithOverflow', 'AddUnchecked', 'SubUnchecked',
          'MulUnchecked', 'ShlUnchecked', 'ShrUnchecked'}
UNOPS = {'Not', 'Neg', 'PtrMetadata'}


def parse_rvalue(r):
    r = r.strip()
    for pre, kind in (('&mut ', 'refmut'), ('&raw const ', 'rawconst'), ('&raw mut ', 'rawmut'), ('&fake shallow ', 'ref'), ('&', 'ref')):
        if r.startswith(pre):
            return ('ref', kind, parse_place(r[len(pre):]))
    m = re.match(r'^(\w+)\(', r)
    if m and find_matching(r, m.end() - 1) == len(r) - 1:
        name, inner = m.group(1), r[m.end():-1]
        if name in BINOPS:
            a, b = split_top(inner)
            return ('binop', name, parse_operand(a), parse_operand(b))
        if name in UNOPS:
            return ('unop', name, parse_operand(inner))
        if name == 'discriminant':
            return ('discriminant', parse_place(inner))
        if name == 'Len':
            return ('len', parse_place(inner))
        if name == 'CopyForDeref':
            return ('use', ('copy', parse_place(inner)))
        if name in ('SizeOf', 'AlignOf'):
            return ('nullop', name, inner)
        if name == 'ShallowInitBox':
            a, ty = split_top(inner)
            return ('shallow_box', parse_operand(a), ty)
    if re.match(r'^(copy|move|no_retag copy|const) ', r):
        # cast?  "<operand> as T (Kind)"
        m = re.match(r'^(.*) as (.*) \((\w+(?:\([^)]*\))?(?:, \w+)?)\)$', r, re.S)
        if m and not r.startswith('const "'):
            try:
                return ('cast', parse_operand(m.group(1)), m.group(2).strip(), m.group(3))
            except ParseError:
                pass
        return ('use', parse_operand(r))
    if r.startswith('[') and r.endswith(']'):
        inner = r[1:-1]
        parts = split_top(inner, ';')
        if len(parts) == 2:
            return ('repeat', parse_operand(parts[0]), parts[1].strip())
        return ('array', [parse_operand(x) for x in split_top(inner)])
    if r.startswith('(') and find_matching(r, 0) == len(r) - 1:
        inner = r[1:-1].strip()
        return ('tuple', [parse_operand(x) for x in split_top(inner)] if inner else [])
    # aggregates
    if r.startswith('{closure@') or r.startswith('{coroutine@') or r.startswith('{async'):
        j = find_matching(r, 0)
        head, rest = r[:j + 1], r[j + 1:].strip()
        fields = []
        if rest.startswith('{'):
            body = rest[1:-1].strip()
            for part in split_top(body):
                nm, val = part.split(': ', 1)
                fields.append(parse_operand(val))
        return ('closure', head, fields)
    # Path { a: op, b: op }
    m = re.match(r'^(.*?) \{ (.*) \}$', r, re.S)
    if m and not m.group(1).startswith(('copy ', 'move ')):
        path = m.group(1)
        fields = []
        for part in split_top(m.group(2)):
            nm, val = part.split(': ', 1)
            fields.append((nm.strip(), parse_operand(val)))
        return ('adt', path, fields, True)
    if r.endswith(')'):
        # Path(op, ...) / Path::Variant(op, ...)
        depth = 0
        for i in range(len(r) - 1, -1, -1):
            if r[i] == ')':
                depth += 1
            elif r[i] == '(':
                depth -= 1
                if depth == 0:
                    break
        path, inner = r[:i], r[i + 1:-1]
        if path and not path.endswith(' '):
            return ('adt', path, [(None, parse_operand(x)) for x in split_top(inner)], False)
    if re.fullmatch(r'[\w:<>\[\], &\'()*;+=\-{}@/.#]+', r) and not r.startswith('_'):
        return ('adt', r, [], False)      # unit variant / unit struct
    raise ParseError('rvalue ' + r)


def parse_targets(t):
    """'[0: bb3, 1: bb5, otherwise: bb4]' -> list of (key, bb)"""
    t = t.strip()
    assert t.startswith('[') and t.endswith(']'), t
    out = []
    for part in split_top(t[1:-1]):
        if ': ' not in part:
            k, v = part.split(' ', 1) if ' ' in part else (part, '')
        else:
            k, v = part.split(': ', 1)
        out.append((k.strip(), v.strip()))
    return out


def parse_call_expr(body):
    """'callee(args)' -> (callee, [args text]).  callee may contain parentheses."""
    assert body.endswith(')'), body
    depth = 0
    i = len(body) - 1
    n = len(body)
    # walk backwards string-aware is awkward; walk forward collecting top-level '(' positions instead
    pos, j, d = [], 0, 0
    while j < n:
        ch = body[j]
        if ch == '"':
            j += 1
            while j < n and body[j] != '"':
                j += 2 if body[j] == '\\' else 1
        elif ch == '>' and j > 0 and body[j - 1] in '-=':
            pass
        elif ch in OPEN:
            if ch == '(' and d == 0:
                pos.append(j)
            d += 1
        elif ch in CLOSE:
            d -= 1
        j += 1
    if not pos:
        raise ParseError('call ' + body)
    i = pos[-1]
    return body[:i].strip(), split_top(body[i + 1:-1])


class Fn:
    def __init__(self, crate, name, params, ret):
        self.crate, self.name, self.params, self.ret = crate, name, params, ret
        self.locals = {}
        self.blocks = {}
        self.cleanup = set()
        self.file = None
        self.promoted = None

    def __repr__(self):
        return '<Fn %s::%s>' % (self.crate, self.name)


def parse_stmt(text, span):
    if text in ('nop',) or text.startswith(('StorageLive(', 'StorageDead(', 'FakeRead(', 'PlaceMention(', 'AscribeUserType(', 'Coverage::', 'Retag(', 'ConstEvalCounter', 'BackwardIncompatibleDropHint')):
        return None
    m = re.match(r'^discriminant\((.*)\) = (\d+)$', text)
    if m:
        return ('setdisc', parse_place(m.group(1)), int(m.group(2)), span)
    m = re.match(r'^Deinit\((.*)\)$', text)
    if m:
        return None
    m = re.match(r'^assume\((.*)\)$', text)
    if m:
        return ('assume', parse_operand(m.group(1)), span)
    m = re.match(r'^copy_nonoverlapping\(', text)
    if m:
        return ('unparsed', text, span)
    # assignment: place = rvalue.  place never contains ' = ' at top level
    depth = 0
    for i, ch in enumerate(text):
        if ch in OPEN:
            depth += 1
        elif ch in CLOSE:
            depth -= 1
        elif ch == ' ' and depth == 0 and text.startswith(' = ', i):
            try:
                return ('assign', parse_place(text[:i]), parse_rvalue(text[i + 3:]), span)
            except ParseError as e:
                return ('unparsed', text, span)
    return ('unparsed', text, span)


def parse_term(text, span):
    if text == 'return':
        return ('return',)
    if text == 'unreachable':
        return ('unreachable', span)
    if text.startswith('resume') or text.startswith('unwind terminate') or text.startswith('abort') or text.startswith('terminate'):
        return ('resume',)
    m = re.match(r'^goto -> (bb\d+)$', text)
    if m:
        return ('goto', m.group(1))
    m = re.match(r'^switchInt\((.*)\) -> (\[.*\])$', text, re.S)
    if m:
        return ('switch', parse_operand(m.group(1)), parse_targets(m.group(2)), span)
    m = re.match(r'^drop\((.*)\) -> (\[.*\])$', text, re.S)
    if m:
        t = dict(parse_targets(m.group(2)))
        return ('drop', parse_place(m.group(1)), t['return'], span)
    m = re.match(r'^assert\((.*)\) -> (\[.*\])$', text, re.S)
    if m:
        args = split_top(m.group(1))
        cond = args[0]
        neg = cond.startswith('!')
        t = dict(parse_targets(m.group(2)))
        return ('assert', parse_operand(cond[1:] if neg else cond), neg, args[1] if len(args) > 1 else '', t['success'], span)
    # call:  DEST = callee(args) -> [return: bbN, unwind ...]   |   DEST = callee(args) -> unwind ...
    head = ret = None
    k = text.rfind(' -> [return: ')
    if k >= 0:
        head = text[:k]
        ret = re.match(r'\[return: (bb\d+)', text[k + 4:]).group(1)
    else:
        m2 = re.match(r'^(.*) -> (unwind [^\[\]]*|bb\d+)$', text, re.S)
        if m2:
            head = m2.group(1)
    m = head
    if head is not None and ' = ' in head:
        depth = 0
        for i, ch in enumerate(head):
            if ch == '>' and i > 0 and head[i - 1] in '-=':
                continue
            if ch in OPEN:
                depth += 1
            elif ch in CLOSE:
                depth -= 1
            elif ch == ' ' and depth == 0 and head.startswith(' = ', i):
                dest, body = head[:i], head[i + 3:]
                callee, args = parse_call_expr(body)
                return ('call', parse_place(dest), callee, [parse_operand(a) for a in args], ret, span)
    if m:
        # call without destination?  (not produced by rustc today)
        pass
    return ('unparsed', text, span)


TERM_RE = re.compile(r'^(return|unreachable|resume|goto |switchInt\(|drop\(|assert\(|unwind |abort|terminate)')


def parse_mir(text, crate):
    """-> list of Fn"""
    fns = []
    lines = text.split('\n')
    i, n = 0, len(lines)
    hdr = re.compile(r'^fn (.+?)\((.*)\) -> (.+) \{\s*(//.*)?$')
    while i < n:
        line = lines[i]
        if line.startswith('fn ') or line.startswith('const ') or line.startswith('static ') or re.match(r'^(promoted\[\d+\] in |const |static )', line):
            m = hdr.match(line)
            is_promoted = line.startswith('promoted[') or line.startswith('const ') or line.startswith('static ')
            if not m and not is_promoted:
                i += 1
                continue
            if not m and not re.search(r'\{\s*(//.*)?$', line):
                # single-line constant:  const NAME: T = <rvalue>;
                sm = re.match(r'^(?:const|static(?: mut)?) (.+?): (.*?) = (.*);\s*(//.*)?$', line)
                if sm:
                    f = Fn(crate, 'const ' + sm.group(1), [], sm.group(2))
                    f.promoted = True
                    try:
                        f.blocks['bb0'] = [('assign', ('local', '_0'), parse_rvalue(sm.group(3)), None), ('return',)]
                    except ParseError:
                        f.blocks['bb0'] = [('unparsed', line, None)]
                    fns.append(f)
                i += 1
                continue
            j = i + 1
            while j < n and lines[j] != '}':
                j += 1
            if m:
                params = []
                for p in split_top(m.group(2)):
                    pm = re.match(r'^(_\d+): (.*)$', p, re.S)
                    if pm:
                        params.append((pm.group(1), pm.group(2)))
                f = Fn(crate, m.group(1), params, m.group(3))
            else:
                # item name ends at the first ": " outside brackets (impl locations contain ": " themselves)
                head = re.sub(r'\s*=\s*\{\s*(//.*)?$', '', line)
                depth, cut = 0, None
                for k_, ch in enumerate(head):
                    if ch in '<([{':
                        depth += 1
                    elif ch in '>)]}' and not (ch == '>' and k_ > 0 and head[k_ - 1] in '-='):
                        depth -= 1
                    elif ch == ':' and depth == 0 and head[k_:k_ + 2] == ': ' and (k_ == 0 or head[k_ - 1] != ':') and head[k_ + 1:k_ + 2] != ':':
                        cut = k_
                        break
                if cut is None:
                    i = j + 1
                    continue
                item, ty = head[:cut], head[cut + 2:]
                pm2 = re.match(r'^promoted\[(\d+)\] in (.+)$', item)
                if pm2:
                    nm = pm2.group(2) + '::promoted[%s]' % pm2.group(1)
                else:
                    nm = 'const ' + re.sub(r'^(const|static(?: mut)?) ', '', item)
                f = Fn(crate, nm, [], ty)
                f.promoted = True
            parse_body(f, lines[i + 1:j])
            fns.append(f)
            i = j
        i += 1
    return fns


def parse_body(f, body):
    cur = None
    pending = None
    for line in body:
        s = line.strip()
        if not s or s.startswith('//'):
            continue
        m = re.match(r'^let (?:mut )?(_\d+): (.*?);\s*(//.*)?$', s)
        if m and cur is None:
            f.locals[m.group(1)] = m.group(2)
            if f.file is None and m.group(3):
                sm = re.search(r' at (\S+?):\d+:\d+', m.group(3))
                if sm:
                    f.file = sm.group(1)
            continue
        m = re.match(r'^(bb\d+)( \(cleanup\))?: \{$', s)
        if m:
            cur = m.group(1)
            f.blocks[cur] = []
            if m.group(2):
                f.cleanup.add(cur)
            continue
        if s == '}':
            cur = None
            continue
        if cur is None:
            if f.file is None:
                sm = re.search(r'// .* at (\S+?):\d+:\d+', s)
                if sm:
                    f.file = sm.group(1)
            continue
        if cur in f.cleanup:
            continue            # unwinding paths are never executed: a panic ends the path
        text, span = strip_stmt(s)
        if not text:
            continue
        try:
            if TERM_RE.match(text) or re.search(r' -> (\[return: bb\d+|unwind|bb\d+$)', text):
                f.blocks[cur].append(parse_term(text, span))
            else:
                st = parse_stmt(text, span)
                if st is not None:
                    f.blocks[cur].append(st)
        except (ParseError, ValueError, AssertionError, IndexError) as e:
            f.blocks[cur].append(('unparsed', text, span))
    for p, t in f.params:
        f.locals.setdefault(p, t)
