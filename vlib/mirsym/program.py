"""Program = parsed MIR of several crates + function index + enum layouts (from /repo sources)."""
import os, re, glob
from . import parse
from .values import Unsupported
from .. import common as C


def strip_generics(s):
    """remove every <...> group (balanced), '&', lifetimes; keep the path"""
    out, depth = [], 0
    i, n = 0, len(s)
    while i < n:
        ch = s[i]
        if ch == '<':
            depth += 1
        elif ch == '>' and (i == 0 or s[i - 1] not in '-='):
            depth -= 1
        elif depth == 0:
            out.append(ch)
        i += 1
    return ''.join(out)


def last_seg(path):
    p = strip_generics(path).replace('&mut ', '').replace('&', '').strip()
    p = re.sub(r"'\w+ ", '', p)
    return p.split('::')[-1].strip()


STD_ENUMS = {
    'Option': {'None': 0, 'Some': 1},
    'Result': {'Ok': 0, 'Err': 1},
    'ControlFlow': {'Continue': 0, 'Break': 1},
    'Ordering': {'Less': -1, 'Equal': 0, 'Greater': 1},
    'Entry': {'Occupied': 0, 'Vacant': 1},
    'BTreeEntry': {'Vacant': 0, 'Occupied': 1},
    'Cow': {'Borrowed': 0, 'Owned': 1},
    'Bound': {'Included': 0, 'Excluded': 1, 'Unbounded': 2},
    'ErrorKind': {n: i for i, n in enumerate(['NotFound', 'PermissionDenied', 'ConnectionRefused', 'ConnectionReset', 'HostUnreachable', 'NetworkUnreachable', 'ConnectionAborted', 'NotConnected', 'AddrInUse', 'AddrNotAvailable', 'NetworkDown', 'BrokenPipe', 'AlreadyExists', 'WouldBlock', 'NotADirectory', 'IsADirectory', 'DirectoryNotEmpty', 'ReadOnlyFilesystem', 'FilesystemLoop', 'StaleNetworkFileHandle', 'InvalidInput', 'InvalidData', 'TimedOut', 'WriteZero', 'StorageFull', 'NotSeekable', 'QuotaExceeded', 'FileTooLarge', 'ResourceBusy', 'ExecutableFileBusy', 'Deadlock', 'CrossesDevices', 'TooManyLinks', 'InvalidFilename', 'ArgumentListTooLong', 'Interrupted', 'Unsupported', 'UnexpectedEof', 'OutOfMemory', 'InProgress', 'Other', 'Uncategorized'])},
}


class Program:
    def __init__(self, crates, mir_dir):
        self.fns = []
        self.by_name = {}         # last segment -> [Fn]
        self.closures = {}        # 'file:line:col' -> Fn
        self.by_full = {}
        self.enums = dict(STD_ENUMS)
        self.enum_rev = {}
        self.structs = {}         # struct name -> [field names] in declaration order (= MIR field indices)
        self.impl_cache = {}
        self.src_cache = {}
        self.crates = crates
        self.allocs = {}          # (crate, 'allocN') -> static item name
        for c in crates:
            text = open(os.path.join(mir_dir, c + '.mir')).read()
            for f in parse.parse_mir(text, c):
                self.add_fn(f)
            for m in re.finditer(r'^(alloc\d+) \(static: ([^,]+),', text, re.M):
                self.allocs[(c, m.group(1))] = m.group(2).strip()
        for c in crates:
            self.load_enums(os.path.join(C.REPO, c, 'src'))
        for e, m in self.enums.items():
            self.enum_rev[e] = {v: k for k, v in m.items()}

    # ------------------------------------------------------------------ function index
    def add_fn(self, f):
        self.fns.append(f)
        self.by_full[(f.crate, f.name)] = f
        name = f.name
        m = re.search(r'\{closure#\d+\}$', name)
        if m and f.params:
            cm = re.search(r'\{closure@([^:}]+:\d+:\d+)', f.params[0][1])
            if cm:
                self.closures[cm.group(1)] = f
            return
        if f.promoted:
            return
        # split path at top-level '::'
        segs = self.split_path(name)
        f.short = segs[-1]
        f.impl_loc = None
        for s in segs[:-1]:
            im = re.match(r'<impl at (\S+?):(\d+):(\d+): \d+:\d+>', s)
            if im:
                f.impl_loc = (im.group(1), int(im.group(2)), int(im.group(3)))
        f.mod_path = [s for s in segs[:-1] if not s.startswith('<impl')]
        self.by_name.setdefault(f.short, []).append(f)

    @staticmethod
    def split_path(name):
        segs, depth, cur = [], 0, ''
        i, n = 0, len(name)
        while i < n:
            ch = name[i]
            if ch in '<({[':
                depth += 1
            elif ch in '>)}]' and not (ch == '>' and i > 0 and name[i - 1] in '-='):
                depth -= 1
            if depth == 0 and name.startswith('::', i):
                segs.append(cur); cur = ''; i += 2; continue
            cur += ch
            i += 1
        segs.append(cur)
        return segs

    def src_lines(self, file):
        if file not in self.src_cache:
            p = os.path.join(C.REPO, file)
            try:
                self.src_cache[file] = open(p).read().split('\n')
            except OSError:
                self.src_cache[file] = []
        return self.src_cache[file]

    def impl_info(self, loc):
        """(self_type_last_segment, trait_last_segment or None, impl line text) for an `<impl at file:line:col>`."""
        if loc in self.impl_cache:
            return self.impl_cache[loc]
        file, line, col = loc
        lines = self.src_lines(file)
        res = (None, None, '')
        if 0 < line <= len(lines):
            text = lines[line - 1]
            frag = text[col - 1:]
            if frag.startswith('impl'):
                # join following lines until '{'
                t = frag
                k = line
                while '{' not in t and k < len(lines):
                    t += ' ' + lines[k].strip(); k += 1
                t = t.split('{')[0]
                t = re.sub(r'\bwhere\b.*$', '', t).strip()
                body = t[4:].strip()
                if body.startswith('<'):
                    j = parse.find_matching(body, 0)
                    body = body[j + 1:].strip()
                m = re.match(r'^(.*?)\s+for\s+(.*)$', body)
                if m:
                    res = (last_seg(m.group(2)), last_seg(m.group(1)), t)
                else:
                    res = (last_seg(body), None, t)
            else:
                # derive: the location is the trait name inside #[derive(...)]; self type = next struct/enum
                tm = re.match(r'([A-Za-z_][\w:]*)', frag)
                trait = tm.group(1).split('::')[-1] if tm else None
                st = None
                for k in range(line - 1, min(line + 40, len(lines))):
                    sm = re.match(r'\s*(?:pub(?:\([^)]*\))?\s+)?(?:struct|enum|union)\s+(\w+)', lines[k])
                    if sm:
                        st = sm.group(1); break
                res = (st, trait, text.strip())
        self.impl_cache[loc] = res
        return res

    def resolve(self, callee, caller=None):
        """Find the local MIR function a callee string names, or None."""
        c = callee.strip()
        trait = None
        self_ty = None
        trait_full = None
        if c.startswith('<'):
            j = parse.find_matching(c, 0)
            inner, rest = c[1:j], c[j + 1:]
            m = re.match(r'^(.*) as (.*)$', inner, re.S)
            # split at top-level ' as '
            depth = 0
            cut = None
            for i, ch in enumerate(inner):
                if ch in '<({[':
                    depth += 1
                elif ch in '>)}]' and not (ch == '>' and i > 0 and inner[i - 1] in '-='):
                    depth -= 1
                elif depth == 0 and inner.startswith(' as ', i):
                    cut = i
            if cut is not None:
                self_ty, trait_full = inner[:cut], inner[cut + 4:]
                trait = last_seg(trait_full)
                self_ty = last_seg(self_ty)
            else:
                self_ty = last_seg(inner)
            segs = self.split_path(rest.lstrip(':'))
            name = strip_generics(segs[0]).strip()
        else:
            segs = self.split_path(c)
            # drop trailing generic-only segment  foo::<T>
            segs = [s for s in segs if not s.startswith('<') or s.startswith('<impl')]
            name = strip_generics(segs[-1]).strip()
            if len(segs) >= 2:
                self_ty = strip_generics(segs[-2]).strip()
        cands = self.by_name.get(name, [])
        if not cands:
            return None
        out = []
        for f in cands:
            if f.impl_loc:
                st, tr, line = self.impl_info(f.impl_loc)
                if st is not None and st.startswith('$'):
                    st = None              # macro metavariable: the impl comes from a macro of another crate
                if st is None and self_ty and f.mod_path and not f.impl_loc[0].startswith(tuple(self.crates)):
                    # impl generated by an external macro (bitflags!, lazy_static!): the type is declared in the module
                    # the function is printed under
                    src = '\n'.join(self.src_lines(os.path.join(f.crate, 'src', *f.mod_path) + '.rs'))
                    if re.search(r'\bstruct\s+%s\s*:\s*\w+\s*\{' % re.escape(self_ty), src):
                        st = self_ty
                if self_ty is None or st is None or st != self_ty:
                    continue
                derived = not line.startswith('impl')
                if trait is not None and tr is not None and tr != trait and not derived:
                    continue            # (derive macros such as thiserror's generate impls of other traits too)
                if trait is None and tr is not None and c.startswith('<'):
                    continue
                out.append(f)
            else:
                # free function (possibly module qualified), or a trait's default method body
                if c.startswith('<'):
                    if trait is not None and f.mod_path and f.mod_path[-1] == trait:
                        out.append(f)
                    continue
                if self_ty and self_ty[:1].isupper() and self_ty not in self.crates:
                    continue          # Type::name never names a free function
                out.append(f)
        if any(f.impl_loc for f in out):
            out = [f for f in out if f.impl_loc]
        if len(out) > 1 and trait_full:
            # From<X> style: match trait generic argument against the impl line
            arg = re.search(r'<(.*)>', trait_full)
            if arg:
                key = last_seg(arg.group(1))
                flt = [f for f in out if f.impl_loc and key in self.impl_info(f.impl_loc)[2]]
                if flt:
                    out = flt
        if len(out) > 1 and trait_full:
            # impls generated by one macro share their location: tell them apart by the parameter type (From<T>::from(T))
            arg = re.search(r'<(.*)>', trait_full, re.S)
            if arg:
                key = last_seg(parse.split_top(arg.group(1))[0])
                flt = [f for f in out if f.params and last_seg(f.params[0][1]) == key]
                if flt:
                    out = flt
        if len(out) > 1 and caller is not None:
            flt = [f for f in out if f.file == caller.file]
            if not flt and caller.file:
                # same source directory (e.g. deserializer/error.rs for a caller in deserializer/state.rs)
                d = os.path.dirname(caller.file)
                flt = [f for f in out if (f.file or (f.impl_loc[0] if f.impl_loc else '')) and os.path.dirname(f.file or f.impl_loc[0]) == d]
            if flt:
                out = flt
            else:
                flt = [f for f in out if f.crate == caller.crate]
                if flt:
                    out = flt
        if len(out) > 1:
            # prefer methods whose impl has no trait when callee is an inherent path
            if trait is None:
                flt = [f for f in out if not f.impl_loc or self.impl_info(f.impl_loc)[1] is None]
                if flt:
                    out = flt
        if len(out) > 1 and len({(f.crate, f.name) for f in out}) == 1:
            out = out[:1]
        if len(out) == 1:
            return out[0]
        if len(out) > 1:
            raise Unsupported('ambiguous callee %s: %s' % (callee, [f.name for f in out][:4]))
        return None

    def closure(self, loc):
        f = self.closures.get(loc)
        if f is None:
            raise Unsupported('closure body not found: ' + loc)
        return f

    # ------------------------------------------------------------------ enum layouts
    def load_enums(self, src_dir):
        for path in glob.glob(os.path.join(src_dir, '**', '*.rs'), recursive=True):
            try:
                text = open(path).read()
            except OSError:
                continue
            text_nc = re.sub(r'//[^\n]*', '', text)
            for m in re.finditer(r'\benum\s+(\w+)\s*(?:<[^>{]*>)?\s*(?:where[^{]*)?\{', text_nc):
                name = m.group(1)
                if name.startswith('$'):
                    continue
                j = parse.find_matching(text_nc, m.end() - 1)
                body = text_nc[m.end():j]
                variants = self.parse_enum_body(body)
                if variants and name not in self.enums:
                    self.enums[name] = variants
            for m in re.finditer(r'\bstruct\s+(\w+)\s*(?:<[^>{(;]*>)?\s*(?:where[^{;]*)?\{', text_nc):
                j = parse.find_matching(text_nc, m.end() - 1)
                fields = []
                for part in parse.split_top(text_nc[m.end():j]):
                    part = re.sub(r'#\[.*?\]\s*', '', part, flags=re.S).strip()
                    fm = re.match(r'^(?:pub(?:\([^)]*\))?\s+)?(\w+)\s*:', part)
                    if fm:
                        fields.append(fm.group(1))
                self.structs.setdefault(m.group(1), fields)
            m = re.search(r'make_brick_color!\s*\(\s*\{(.*?)\n\}\s*\)', text_nc, re.S)
            if m:
                ents = re.findall(r'\[\s*(\w+)\s*,\s*"[^"]*"\s*,\s*(\d+)\s*,', m.group(1))
                if ents:
                    self.enums['BrickColor'] = {n: int(v) for n, v in ents}
            m = re.search(r'\n\s*material_colors!\s*\{(.*?)\n\}', text_nc, re.S)
            if m:
                names = re.findall(r'^\s*(\w+)\s*=>', m.group(1), re.M)
                if names:
                    self.enums['TerrainMaterials'] = {n: i for i, n in enumerate(names)}
            # make_variant! { Name(Type), ... }  => Variant and VariantType
            m = re.search(r'make_variant!\s*\{(.*?)\n\}', text_nc, re.S)
            if m:
                names = re.findall(r'^\s*(\w+)\s*\(', m.group(1), re.M)
                self.enums['Variant'] = {n: i for i, n in enumerate(names)}
                self.enums['VariantType'] = {n: i for i, n in enumerate(names)}

    @staticmethod
    def parse_enum_body(body):
        out, nxt = {}, 0
        for part in parse.split_top(body):
            part = re.sub(r'#\[[^\]]*\]', '', part, flags=re.S).strip()
            part = re.sub(r'#\[.*?\]\s*', '', part, flags=re.S).strip()
            if not part or part.startswith('$'):
                return None
            m = re.match(r'^(\w+)', part)
            if not m:
                return None
            name = m.group(1)
            dm = re.search(r'=\s*(-?(?:0x[0-9a-fA-F_]+|\d[\d_]*))\s*$', part)
            if dm and '(' not in part.split('=')[0] and '{' not in part.split('=')[0]:
                nxt = int(dm.group(1).replace('_', ''), 0)
            out[name] = nxt
            nxt += 1
        return out

    def field(self, struct, name):
        fs = self.structs.get(struct)
        if fs is None or name not in fs:
            raise Unsupported('struct layout unknown: %s.%s' % (struct, name))
        return fs.index(name)

    def disc(self, ename, variant):
        m = self.enums.get(ename)
        if m is None or variant not in m:
            raise Unsupported('enum layout unknown: %s::%s' % (ename, variant))
        return m[variant]

    def variant_of(self, ename, disc):
        m = self.enum_rev.get(ename)
        if m is None or disc not in m:
            raise Unsupported('enum layout unknown: %s #%s' % (ename, disc))
        return m[disc]
