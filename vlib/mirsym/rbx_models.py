"""Models specific to rbx-dom's own leaf types that the checks treat as opaque (listed in evidence)."""
import re
import z3
from .values import *
from .models import Models, deref, head_name
from .program import last_seg


class World:
    """Per-path environment shared by models: registries for freshness contracts."""

    def __init__(self):
        self.refs = []          # every Ref term in the state (for Ref::new freshness)
        self.unique_ids = []    # every UniqueId value in the state (for UniqueId::now freshness)
        self.fresh_refs = []
        self.fresh_uids = []


# Ref is modelled as an opaque identity (z3 Int; 0 = none): the repository code only compares Refs and tests them
# for none, so equality reasoning over an unbounded domain is exact for it (2^128 values >> atoms in any bounded state).
def ref_val(t):
    return Sc(t, 'Ref')


def ref_sym(name):
    return z3.Int(name)


def none_term():
    return z3.IntVal(0)


def none_ref():
    return Sc(none_term(), 'Ref')


class RbxModels(Models):
    def __init__(self, opaque_ref=True, fresh_uid=True):
        Models.__init__(self)
        M = self

        if opaque_ref:
            M.opaque_types.add('Ref')
            @M.path('Ref', 'new', override=True)
            def _ref_new(ex, args, info):
                """contract: a Ref distinct from none and from every Ref in the state (2^-128 collision ignored)"""
                t = ref_sym(ex.fresh('newref'))
                w = ex.world
                ex.assume(t != 0)
                for o in w.refs + w.fresh_refs:
                    ex.assume(t != o)
                w.fresh_refs.append(t)
                return ref_val(t)

            @M.path('Ref', 'none', override=True)
            def _ref_none(ex, args, info):
                return none_ref()

            @M.path('Ref', ['is_some', 'is_none'], override=True)
            def _ref_is_some(ex, args, info):
                v = deref(args[0])
                c = v.t != 0 if info.method == 'is_some' else v.t == 0
                return Sc(z3.simplify(c), 'bool')

        if fresh_uid:
            @M.path('UniqueId', 'now', override=True)
            def _uid_now(ex, args, info):
                """contract: Ok(id) with id different from every UniqueId in the state and every earlier fresh one"""
                w = ex.world
                uid = Struct([sym_int(ex.fresh('uid_index'), 'u32'), sym_int(ex.fresh('uid_time'), 'u32'), sym_int(ex.fresh('uid_random'), 'i64')], 'UniqueId')
                for o in w.unique_ids + w.fresh_uids:
                    ex.assume(z3.Not(M.val_eq(ex, uid, o)))
                w.fresh_uids.append(uid)
                return Ok(uid)

    def register_bitflags(self, prog):
        """bitflags!-generated types (FaceFlags, AxisFlags): contract model with the mask taken from the macro invocation in
        /repo's source (the generated impls live in the bitflags crate's macro and are not interpreted)."""
        import glob, os
        from .. import common as C
        M = self
        masks = {}
        for crate in prog.crates:
            for path in glob.glob(os.path.join(C.REPO, crate, 'src', '**', '*.rs'), recursive=True):
                try:
                    text = open(path).read()
                except OSError:
                    continue
                for m in re.finditer(r'bitflags::bitflags!\s*\{\s*(?:pub\s+)?struct\s+(\w+)\s*:\s*(\w+)\s*\{(.*?)\}\s*\}', text, re.S):
                    consts = [int(x, 0) for x in re.findall(r'const\s+\w+\s*=\s*(0x[0-9a-fA-F]+|\d+)\s*;', m.group(3))]
                    mask = 0
                    for c in consts:
                        mask |= c
                    masks[m.group(1)] = (mask, m.group(2))
                    prog.structs.setdefault(m.group(1), ['bits'])
        self.bitflag_masks = masks
        if not masks:
            return

        @M.path(list(masks), ['from_bits', 'from_bits_truncate', 'bits', 'contains', 'empty', 'all', 'is_empty'], override=True)
        def _bitflags(ex, args, info):
            mask, ty = masks[info.self_ty_head]
            w = INT_W[ty]
            mk = lambda t: Struct([Sc(z3.simplify(t), ty)], info.self_ty_head)
            mth = info.method
            if mth == 'empty':
                return mk(z3.BitVecVal(0, w))
            if mth == 'all':
                return mk(z3.BitVecVal(mask, w))
            if mth == 'from_bits':
                b = args[0]
                ok = (b.t & z3.BitVecVal(~mask & ((1 << w) - 1), w)) == 0
                return Enum('Option', None, alts=[(z3.simplify(ok), 'Some', [mk(b.t)]), (z3.simplify(z3.Not(ok)), 'None', [])])
            if mth == 'from_bits_truncate':
                return mk(args[0].t & z3.BitVecVal(mask, w))
            me = deref(args[0])
            if mth == 'bits':
                return me.f[0]
            if mth == 'is_empty':
                return Sc(z3.simplify(me.f[0].t == 0), 'bool')
            other = deref(args[1])
            return Sc(z3.simplify((me.f[0].t & other.f[0].t) == other.f[0].t), 'bool')

    def to_variant(self, ex, v):
        if isinstance(v, Enum) and v.ename == 'Variant':
            return v
        # `impl From<T> for Variant` generated by make_variant!: interpret the repository's impl for this payload type
        if isinstance(v, Sc):
            ty = v.ty
        elif isinstance(v, Struct):
            ty = v.name
        elif isinstance(v, Enum):
            ty = v.ename
        elif isinstance(v, StrV):
            ty = 'String'
        else:
            ty = None
        if ty:
            f = ex.prog.resolve('<Variant as From<%s>>::from' % ty, None)
            if f is not None:
                return ex.call_fn(f, [v])
        raise Unsupported('Into<Variant> for %r' % (v,))
