"""Models specific to rbx-dom's own leaf types that the checks treat as opaque (listed in evidence)."""
import re
import z3
from .values import *
from .models import Models, deref, head_name
from .program import last_seg


class World:
    """Per-path environment shared by models: registries for freshness contracts."""

    def __init__(self):
        self.refs = []          # every Ref term in the state (for Ref::new freshness)
        self.unique_ids = []    # every UniqueId value in the state (for UniqueId::now freshness)
        self.fresh_refs = []
        self.fresh_uids = []


# Ref is modelled as an opaque identity (z3 Int; 0 = none): the repository code only compares Refs and tests them
# for none, so equality reasoning over an unbounded domain is exact for it (2^128 values >> atoms in any bounded state).
def ref_val(t):
    return Sc(t, 'Ref')


def ref_sym(name):
    return z3.Int(name)


def none_term():
    return z3.IntVal(0)


def none_ref():
    return Sc(none_term(), 'Ref')


class RbxModels(Models):
    def __init__(self, opaque_ref=True, fresh_uid=True):
        Models.__init__(self)
        M = self

        if opaque_ref:
            M.opaque_types.add('Ref')
            @M.path('Ref', 'new', override=True)
            def _ref_new(ex, args, info):
                """contract: a Ref distinct from none and from every Ref in the state (2^-128 collision ignored)"""
                t = ref_sym(ex.fresh('newref'))
                w = ex.world
                ex.assume(t != 0)
                for o in w.refs + w.fresh_refs:
                    ex.assume(t != o)
                w.fresh_refs.append(t)
                return ref_val(t)

            @M.path('Ref', 'none', override=True)
            def _ref_none(ex, args, info):
                return none_ref()

            @M.path('Ref', ['is_some', 'is_none'], override=True)
            def _ref_is_some(ex, args, info):
                v = deref(args[0])
                c = v.t != 0 if info.method == 'is_some' else v.t == 0
                return Sc(z3.simplify(c), 'bool')

        if fresh_uid:
            @M.path('UniqueId', 'now', override=True)
            def _uid_now(ex, args, info):
                """contract: Ok(id) with id different from every UniqueId in the state and every earlier fresh one"""
                w = ex.world
                uid = Struct([sym_int(ex.fresh('uid_index'), 'u32'), sym_int(ex.fresh('uid_time'), 'u32'), sym_int(ex.fresh('uid_random'), 'i64')], 'UniqueId')
                for o in w.unique_ids + w.fresh_uids:
                    ex.assume(z3.Not(M.val_eq(ex, uid, o)))
                w.fresh_uids.append(uid)
                return Ok(uid)

    def to_variant(self, ex, v):
        if isinstance(v, Enum) and v.ename == 'Variant':
            return v
        raise Unsupported('Into<Variant> for %r' % (v,))
