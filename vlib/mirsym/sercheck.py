"""Serializer side of rbx_binary (C03 M3 / C01 M1): the real Serializer::serialize is executed symbolically on a small DOM whose
property values are symbolic; the written bytes are
  (C03) parsed by a structural reader transcribed from docs/binary.md (header, chunk framing, INST, PROP, PRNT, END) and every
        PROP Values section is compared, by the solver, with the spec encoding of the symbolic values;
  (C01) fed to the real Deserializer::deserialize in the same symbolic run, and the decoded DOM compared bit for bit.
"""
import time, os, json
import z3
import itertools
from .values import *
from .interp import Exec, Stats
from .rbx_models import World
from .models import deref
from . import iomodels, bincheck as Bc
from .domcheck import DomHarness, Atoms, ref_val, none_term


class SerHarness(Bc.BinHarness):
    def __init__(self, prog):
        super().__init__(prog)
        self.F_SER = prog.resolve('Serializer::serialize')
        if self.F_SER is None:
            raise Unsupported('Serializer::serialize not found in MIR')
        self.DH = DomHarness(prog)


_EX = [None]


def _guarded(case, part):
    """a run for C01 does not stop at a C03 finding (the C03 check reports that one) and vice versa"""
    if case.get('prop') == 'C01':
        try:
            part()
        except Violation as v:
            if not v.label.startswith('C03'):
                raise
    else:
        part()


def conc(bs, what):
    """structural bytes must be determined by the path condition (decided by the solver when not syntactically constant)"""
    out = []
    for b in bs:
        c = b.concrete()
        if c is None:
            ex = _EX[0]
            t = z3.simplify(b.t)
            if z3.is_bv_value(t):
                c = t.as_long()
            elif ex is not None and ex.solver.check() == z3.sat:
                cand = ex.solver.model().eval(t, model_completion=True).as_long()
                if not ex.sat(t != cand):
                    c = cand
        if c is None:
            raise Violation('C03.struct[symbolic_structure]: %s of the written file depends on property values' % what)
        out.append(c)
    return bytes(out)


def u32(bs, what):
    return int.from_bytes(conc(bs, what), 'little')


def parse_file(data):
    """structural reader per docs/binary.md "File Structure" / "Chunks": returns (num_types, num_instances, [(name, body)])"""
    if len(data) < 32:
        raise Violation('C03.struct[header]: file shorter than the 32-byte header')
    if conc(data[0:14], 'magic') != bytes(Bc.HEADER[:14]):
        raise Violation('C03.struct[header]: magic / signature differ from the specification')
    if conc(data[14:16], 'version') != b'\0\0':
        raise Violation('C03.struct[header]: version is not 0')
    ntypes, ninst = u32(data[16:20], 'class count'), u32(data[20:24], 'instance count')
    if conc(data[24:32], 'reserved') != bytes(8):
        raise Violation('C03.struct[header]: reserved bytes are not zero')
    pos, chunks = 32, []
    while pos < len(data):
        if pos + 16 > len(data):
            raise Violation('C03.struct[chunk]: truncated chunk header at offset %d' % pos)
        name = conc(data[pos:pos + 4], 'chunk name')
        clen, ulen, rsv = u32(data[pos + 4:pos + 8], 'compressed length'), u32(data[pos + 8:pos + 12], 'chunk length'), u32(data[pos + 12:pos + 16], 'reserved')
        if rsv != 0:
            raise Violation('C03.struct[chunk]: reserved field of chunk %r is %d' % (name, rsv))
        if clen != 0:
            raise Violation('C03.struct[chunk]: chunk %r announces compressed data although compression is off' % name)
        if pos + 16 + ulen > len(data):
            raise Violation('C03.struct[chunk]: chunk %r announces %d bytes, %d are left' % (name, ulen, len(data) - pos - 16))
        chunks.append((name, data[pos + 16:pos + 16 + ulen]))
        pos += 16 + ulen
    return ntypes, ninst, chunks


def read_string(body, pos, what):
    n = u32(body[pos:pos + 4], what + ' length')
    return body[pos + 4:pos + 4 + n], pos + 4 + n


def un_referents(bs, n, what):
    """referent array: n interleaved big-endian zigzag deltas"""
    raw = conc(bs, what)
    vals, acc = [], 0
    for i in range(n):
        z = int.from_bytes(bytes(raw[i + n * j] for j in range(4)), 'big')
        d = (z >> 1) ^ -(z & 1)
        acc = (acc + d) & 0xffffffff
        vals.append(acc - (1 << 32) if acc >= 1 << 31 else acc)
    return vals


def build_dom(H, ex, A, shape, classes, props):
    """WeakDom: node 0 = DataModel root; shape[i] = parent index; props[i] = [(name bytes, Variant value)]"""
    DH = H.DH
    n = len(shape)
    refs = [A.declare('d_r%d' % i) for i in range(n)]
    if n > 1:
        ex.assume(z3.Distinct(*refs))
    for r in refs:
        ex.assume(r != none_term())
    entries = []
    for i in range(n):
        kids = [refs[c] for c in range(1, n) if shape[c] == i]
        parent = none_term() if i == 0 else refs[shape[i]]
        inst = DH.mk_instance(refs[i], kids, parent, StrV.lit(('N%d' % i).encode()), StrV.lit(classes[i].encode()), [(StrV.lit(k), v) for k, v in props[i]])
        entries.append([ref_val(refs[i]), Cell(inst)])
    f = [None] * 3
    f[DH.W['instances']] = MapM(entries, kind='AHashMap')
    f[DH.W['root_ref']] = ref_val(refs[0])
    f[DH.W['unique_ids']] = SetM([], kind='AHashSet')
    return Struct(f, 'WeakDom'), refs


def tree_case(H, ex, case):
    """C03 M3 / C01 M2: a forest with several classes; chosen roots = the children of the DataModel root (in order)"""
    A = Atoms(ex)
    shape, classes = list(case['shape']), list(case['classes'])      # node 0 = DataModel
    n = len(shape) - 1
    ref_props = case.get('refs', {})                                  # node -> target node | 'none' | 'outside'
    props = [[] for _ in shape]
    dom, refs = build_dom(H, ex, A, shape, classes, props)
    outside = A.declare('d_outside')
    ex.assume(z3.And(outside != none_term(), *[outside != r for r in refs]))
    insts = dom.f[H.DH.W['instances']]
    for node, tgt in ref_props.items():
        t = none_term() if tgt == 'none' else (outside if tgt == 'outside' else refs[tgt])
        inst = insts.entries[node][1].v
        inst.f[H.DH.I['properties']].entries.append([StrV.lit(b'R'), Cell(Enum('Variant', 'Ref', [ref_val(t)]))])
    content_props = case.get('crefs', {})                             # node -> target node | 'none' | 'outside' | ('uri', byte)
    for node, tgt in content_props.items():
        inst = insts.entries[node][1].v
        if isinstance(tgt, tuple):
            cv = Enum('ContentType', 'Uri', [StrV([mk_int(tgt[1], 'u8')], None)])
        elif tgt == 'none':
            cv = Enum('ContentType', 'None', [])
        else:
            cv = Enum('ContentType', 'Object', [ref_val(outside if tgt == 'outside' else refs[tgt])])
        inst.f[H.DH.I['properties']].entries.append([StrV.lit(b'C'), Cell(Enum('Variant', 'Content', [Struct([cv], 'Content')]))])
    roots_idx = case.get('roots') or [i for i in range(1, n + 1) if shape[i] == 0]
    written = []

    def collect(i):
        written.append(i)
        for c in range(1, n + 1):
            if shape[c] == i:
                collect(c)
    for r in roots_idx:
        collect(r)
    db = H.database(case.get('db'))
    ser = H.S('Serializer', database=Ptr(Cell(db)), compression=Enum('CompressionType', 'None'))
    out = VecM([])
    roots = ArrayV([ref_val(refs[i]) for i in roots_idx])
    try:
        res = ex.force(ex.call_fn(H.F_SER, [Ptr(Cell(ser)), Ptr(Cell(out)), Ptr(Cell(dom)), SliceRef(Ptr(Cell(roots)), 0, len(roots_idx))]))
    except PanicPath as p:
        raise Violation('C03.panic[sertree:%s]: Serializer::serialize panics: %s at %s' % (str(getattr(p, 'where', '?')).replace(' ', '_'), p.msg, p.site))
    if res.variant != 'Ok':
        raise Violation('C01.reject[sertree]: Serializer::serialize fails on a plain forest')
    data = out.items
    ex.input_bytes = data
    def c03_part(data=data):
        ntypes, ninst, chunks = parse_file(data)
        names = [c[0] for c in chunks]
        wclasses = sorted({classes[i] for i in written})
        if ntypes != len(wclasses) or ninst != len(written):
            raise Violation('C03.struct[header_counts]: header says %d classes / %d instances, written are %d / %d' % (ntypes, ninst, len(wclasses), len(written)))
        if names[-1] != b'END\0' or conc(chunks[-1][1], 'END body') != b'</roblox>':
            raise Violation('C03.struct[end]: the file does not end with an END chunk holding </roblox>')
        if names.count(b'PRNT') != 1 or names.index(b'PRNT') != len(names) - 2:
            raise Violation('C03.struct[prnt]: exactly one PRNT chunk right before END expected (chunks: %s)' % names)
        by_class, cids, ref_of, content_of = {}, {}, {}, {}
        for nm, body in chunks:
            if nm != b'INST':
                continue
            cid = u32(body[0:4], 'class id')
            cname, p_ = read_string(body, 4, 'class name')
            cname = conc(cname, 'class name').decode()
            if cname in by_class or cid in cids:
                raise Violation('C03.struct[inst]: class %s / id %d appears in two INST chunks' % (cname, cid))
            fmt = conc(body[p_:p_ + 1], 'format')[0]
            cnt = u32(body[p_ + 1:p_ + 5], 'count')
            if len(body) != p_ + 5 + 4 * cnt + (cnt if fmt == 1 else 0) or fmt not in (0, 1):
                raise Violation('C03.struct[inst]: INST chunk of %s has a wrong length / format' % cname)
            by_class[cname] = un_referents(body[p_ + 5:p_ + 5 + 4 * cnt], cnt, 'INST referents')
            svc = cname in case.get('services', ())
            if fmt != (1 if svc else 0):
                raise Violation('C03.struct[inst_format]: class %s is written with object format %d' % (cname, fmt))
            if svc and conc(body[p_ + 5 + 4 * cnt:], 'service markers') != b'\x01' * cnt:
                raise Violation('C03.struct[inst_service_markers]: service class %s with %d instances carries the markers %r (one byte 1 per instance)' % (cname, cnt, conc(body[p_ + 5 + 4 * cnt:], 'x')))
            cids[cid] = cname
        if sorted(by_class) != wclasses:
            raise Violation('C03.struct[inst]: INST chunks for %s, written classes are %s' % (sorted(by_class), wclasses))
        allrefs = [r for c in by_class.values() for r in c]
        if len(set(allrefs)) != len(allrefs) or len(allrefs) != len(written):
            raise Violation('C03.struct[inst]: %d referents (%d distinct) for %d instances' % (len(allrefs), len(set(allrefs)), len(written)))
        # which file referent is which instance: through the Name column of each class (names are distinct)
        name_of = {}
        for nm, body in chunks:
            if nm != b'PROP':
                continue
            cid = u32(body[0:4], 'PROP class id')
            if cid not in cids:
                raise Violation('C03.struct[prop]: PROP chunk for undeclared class id %d' % cid)
            pname, q = read_string(body, 4, 'property name')
            pname = conc(pname, 'property name')
            tid = conc(body[q:q + 1], 'type id')[0]
            members = by_class[cids[cid]]
            pos = q + 1
            if pname == b'Name':
                for r in members:
                    sv, pos = read_string(body, pos, 'name value')
                    name_of[r] = conc(sv, 'name').decode()
                if pos != len(body):
                    raise Violation('C03.struct[prop]: Name column of %s does not carry exactly one value per instance' % cids[cid])
            elif pname == b'R':
                if tid != 0x13 or len(body) - pos != 4 * len(members):
                    raise Violation('C03.prop[ser_Ref]: Ref column has type id 0x%02x / %d bytes for %d instances' % (tid, len(body) - pos, len(members)))
                for r, tv in zip(members, un_referents(body[pos:], len(members), 'Ref values')):
                    ref_of[r] = tv
            elif pname == b'C':
                # Content column: source types (interleaved i32), uri count + strings, object count + referent array, external count 0
                if tid != 0x22:
                    raise Violation('C03.prop[ser_Content]: Content column has type id 0x%02x' % tid)
                m_ = len(members)
                raw = conc(body[pos:pos + 4 * m_], 'Content source types')
                types_ = []
                for i_ in range(m_):
                    z_ = int.from_bytes(bytes(raw[i_ + m_ * j_] for j_ in range(4)), 'big')
                    types_.append((z_ >> 1) ^ -(z_ & 1))
                pos += 4 * m_
                nuri = u32(body[pos:pos + 4], 'uri count')
                pos += 4
                uris = []
                for _ in range(nuri):
                    sv, pos = read_string(body, pos, 'uri')
                    uris.append(conc(sv, 'uri'))
                nobj = u32(body[pos:pos + 4], 'object count')
                pos += 4
                objs = un_referents(body[pos:pos + 4 * nobj], nobj, 'Content objects')
                pos += 4 * nobj
                if u32(body[pos:pos + 4], 'external count') != 0 or pos + 4 != len(body):
                    raise Violation('C03.prop[ser_Content]: Content column does not end with an external-object count of 0')
                if types_.count(1) != nuri or types_.count(2) != nobj:
                    raise Violation('C03.prop[ser_Content]: %d URI / %d object values but UriCount = %d, ObjectCount = %d' % (types_.count(1), types_.count(2), nuri, nobj))
                ui = oi = 0
                for r, ty in zip(members, types_):
                    if ty == 1:
                        content_of[r] = ('uri', uris[ui]); ui += 1
                    elif ty == 2:
                        content_of[r] = ('obj', objs[oi]); oi += 1
                    else:
                        content_of[r] = ('none', None)
            else:
                raise Violation('C03.struct[prop]: unexpected property column %r' % pname)
        want_names = {('N%d' % i) for i in written}
        if set(name_of.values()) != want_names or len(name_of) != len(written):
            raise Violation('C03.struct[prop]: Name columns give %s, written instances are %s' % (sorted(name_of.values()), sorted(want_names)))
        node_of = {r: int(nm[1:]) for r, nm in name_of.items()}
        file_ref = {v: k for k, v in node_of.items()}
        for c, members in by_class.items():
            if any(classes[node_of[r]] != c for r in members):
                raise Violation('C03.struct[inst]: an instance is listed under the wrong class')
        prnt = chunks[-2][1]
        m_ = len(written)
        if conc(prnt[0:1], 'PRNT version') != b'\0' or u32(prnt[1:5], 'PRNT count') != m_ or len(prnt) != 5 + 8 * m_:
            raise Violation('C03.struct[prnt]: PRNT chunk malformed (version / count / length)')
        ch, pa = un_referents(prnt[5:5 + 4 * m_], m_, 'PRNT children'), un_referents(prnt[5 + 4 * m_:], m_, 'PRNT parents')
        if sorted(ch) != sorted(allrefs):
            raise Violation('C03.struct[prnt]: PRNT lists %s, written referents are %s (each exactly once)' % (ch, sorted(allrefs)))
        posn = {r: k for k, r in enumerate(ch)}
        for r, p in zip(ch, pa):
            node = node_of[r]
            want_p = -1 if node in roots_idx else file_ref[shape[node]]
            if p != want_p:
                raise Violation('C03.struct[prnt]: parent of %s is written as %d, expected %d' % (name_of[r], p, want_p))
            if p != -1 and posn[p] < posn[r]:
                raise Violation('C03.struct[prnt_order]: parent %s is listed before its child %s' % (name_of[p], name_of[r]))
        # sibling order = PRNT order (what readers reconstruct)
        for parent in [None] + written:
            sibs_dom = roots_idx if parent is None else [c for c in range(1, n + 1) if shape[c] == parent]
            sibs_file = [node_of[r] for r, p in zip(ch, pa) if (p == -1 if parent is None else (p != -1 and node_of[p] == parent))]
            if sibs_dom != sibs_file:
                raise Violation('C03.struct[sibling_order]: children of %s are listed as %s in PRNT, the DOM order is %s' % ('the file root' if parent is None else 'N%d' % parent, sibs_file, sibs_dom))
        for node, tgt in content_props.items():
            if node not in written:
                continue
            got_c = content_of.get(file_ref[node])
            if isinstance(tgt, tuple):
                want_c = ('uri', bytes([tgt[1]]))
            elif tgt == 'none':
                want_c = ('none', None)
            else:
                want_c = ('obj', file_ref[tgt] if isinstance(tgt, int) and tgt in written else -1)
            if got_c != want_c:
                raise Violation('C03.prop[ser_Content]: Content of N%d (%s) is written as %s, expected %s' % (node, tgt, got_c, want_c))
        for node, tgt in ref_props.items():
            if node not in written:
                continue
            want_t = file_ref[tgt] if isinstance(tgt, int) and tgt in written else -1
            if ref_of.get(file_ref[node]) != want_t:
                raise Violation('C03.prop[ser_Ref]: Ref of N%d (target %s) is written as %s, expected %d' % (node, tgt, ref_of.get(file_ref[node]), want_t))
    ex.tree_case = dict(written=written, roots=roots_idx)
    ex.c03_tree = c03_part
    _guarded(case, c03_part)
    if case.get('prop') == 'C03':
        return 'ok'
    # ---- C01: read back
    de = H.deserializer(db)
    try:
        r2 = ex.force(ex.call_fn(H.F_DESER, [Ptr(Cell(de)), Ptr(Cell(iomodels.CursorV(data)))]))
    except PanicPath as p:
        raise Violation('C01.panic[rt_tree]: reading back the written file panics: %s at %s' % (p.msg, p.site))
    if r2.variant != 'Ok':
        raise Violation('C01.reject[rt_tree]: the written file is rejected by the reader')
    d = H.DH.snapshot(ex, A, r2.f[0])
    v = H.DH.inv_violations(ex, d, 'read-back DOM')
    if v:
        raise Violation('C01.tree: read-back DOM is not a well-formed forest: ' + '; '.join(v[:2]))

    def exp_tree(i):
        return ('N%d' % i, classes[i], [exp_tree(c) for c in range(1, n + 1) if shape[c] == i])

    def got_tree(k):
        node = d.nodes[k]
        return ((node['name'].concrete_bytes() or b'?').decode(), (node['cls'].concrete_bytes() or b'?').decode(), [got_tree(c) for c in node['children']])
    got = [got_tree(c) for c in d.nodes[d.root]['children']]
    want = [exp_tree(i) for i in roots_idx]
    if got != want:
        raise Violation('C01.tree[rt_tree]: forest read back %s, written %s' % (got, want))
    # Ref properties: same target among the new instances, or null
    by_name = {}
    for k, node in d.nodes.items():
        by_name[(node['name'].concrete_bytes() or b'').decode()] = k
    for node, tgt in ref_props.items():
        if node not in written:
            continue
        pr = {pk.concrete_bytes(): pv for pk, pv in d.nodes[by_name['N%d' % node]]['props']}
        if b'R' not in pr or pr[b'R'].variant != 'Ref':
            raise Violation('C01.prop[rt_Ref]: Ref property of N%d is missing after the round trip' % node)
        want_k = by_name['N%d' % tgt] if isinstance(tgt, int) and tgt in written else 'none'
        if A.canon(pr[b'R'].f[0]) != want_k:
            raise Violation('C01.prop[rt_Ref]: Ref of N%d points at %s after the round trip, expected %s' % (node, A.canon(pr[b'R'].f[0]), want_k))
    for node, tgt in content_props.items():
        if node not in written:
            continue
        pr = {pk.concrete_bytes(): pv for pk, pv in d.nodes[by_name['N%d' % node]]['props']}
        if b'C' not in pr or pr[b'C'].variant != 'Content':
            raise Violation('C01.prop[rt_Content]: Content property of N%d is missing after the round trip' % node)
        cv = ex.force(pr[b'C'].f[0].f[0])
        if isinstance(tgt, tuple):
            ok_ = cv.variant == 'Uri' and deref(cv.f[0]).concrete_bytes() == bytes([tgt[1]])
        elif tgt == 'none':
            ok_ = cv.variant == 'None'
        else:
            want_k = by_name['N%d' % tgt] if isinstance(tgt, int) and tgt in written else 'none'
            ok_ = cv.variant == 'Object' and A.canon(cv.f[0]) == want_k
        if not ok_:
            raise Violation('C01.prop[rt_Content]: Content of N%d (%s) comes back as %s%s' % (node, tgt, cv.variant, (' -> ' + str(A.canon(cv.f[0]))) if cv.variant == 'Object' else ''))
    return 'ok'


def cols_case(H, ex, case):
    """C08: same-class instances with different property subsets under canonical / alias / legacy names, custom database.
    case: cls, db (classes spec), insts = [[(prop name, kind, label)]], expect = [{canonical name: ('val', label, kind) |
    ('default', kind, nums | None) | ('migrated_inset', label)}]"""
    from . import attrcheck
    A = Atoms(ex)
    insts, expect = case['insts'], case['expect']
    n = len(insts)
    vals = {}
    for plist in insts:
        for pname, kind, label in plist:
            if label not in vals:
                v = {}
                for fld, w in Bc.FIELDS[kind]:
                    v[fld] = z3.Bool('%s_%s' % (label, fld)) if w == 'bool' else z3.BitVec('%s_%s' % (label, fld), w)
                vals[label] = (kind, v)
    ex.cols_case = dict(vals=vals)
    mk = lambda kind, v: Bc.build_value(H, Bc.expected_variant(H, kind, v, {}, 0))
    cls = case.get('cls', 'K')
    classes = ['DataModel'] + [cls] * n
    shape = [-1] + [0] * n
    props = [[]] + [[(pn.encode(), mk(kind, vals[label][1])) for pn, kind, label in plist] for plist in insts]
    dom, refs = build_dom(H, ex, A, shape, classes, props)
    db = H.database(case['db'])
    ser = H.S('Serializer', database=Ptr(Cell(db)), compression=Enum('CompressionType', 'None'))
    out = VecM([])
    roots = ArrayV([ref_val(r) for r in refs[1:]])
    try:
        res = ex.force(ex.call_fn(H.F_SER, [Ptr(Cell(ser)), Ptr(Cell(out)), Ptr(Cell(dom)), SliceRef(Ptr(Cell(roots)), 0, n)]))
    except PanicPath as p:
        raise Violation('C08.panic[cols:%s]: Serializer::serialize panics: %s at %s' % (str(getattr(p, 'where', '?')).replace(' ', '_'), p.msg, p.site))
    if res.variant != 'Ok':
        raise Violation('C08.reject[cols_write]: serialization of the class column fails although every instance serializes on its own (%s)' % case.get('tag', ''))
    data = out.items
    ex.input_bytes = data
    de = H.deserializer(db)
    try:
        r2 = ex.force(ex.call_fn(H.F_DESER, [Ptr(Cell(de)), Ptr(Cell(iomodels.CursorV(data)))]))
    except PanicPath as p:
        raise Violation('C08.panic[cols_read]: reading back panics: %s at %s' % (p.msg, p.site))
    if r2.variant != 'Ok':
        raise Violation('C08.reject[cols_read]: the written file is rejected by the reader')
    d = H.DH.snapshot(ex, A, r2.f[0])
    kids = d.nodes[d.root]['children']
    if len(kids) != n:
        raise Violation('C08.tree: %d instances read back, %d written' % (len(kids), n))
    for i, k in enumerate(kids):
        node = d.nodes[k]
        if (node['name'].concrete_bytes() if isinstance(node['name'], StrV) else None) != ('N%d' % (i + 1)).encode():
            raise Violation('C08.tree: instance %d comes back under another name / position' % i)
        pr = {pk.concrete_bytes().decode(): pv for pk, pv in node['props']}
        if set(pr) != set(expect[i]):
            raise Violation('C08.cols[names]: instance %d comes back with properties %s, expected %s (%s)' % (i + 1, sorted(pr), sorted(expect[i]), case.get('tag', '')))
        for cname, e in expect[i].items():
            got = pr[cname]
            if e[0] == 'val':
                exp = mk(e[2], vals[e[1]][1])
            elif e[0] == 'migrated_inset':
                b = vals[e[1]][1]['v']
                exp = mk('Enum', {'v': z3.If(b, z3.BitVecVal(1, 32), z3.BitVecVal(2, 32))})
            elif e[0] == 'default' and e[2] is not None:
                exp = H.const_value(e[1], e[2])
            else:
                exp = None
            if exp is not None:
                if got.variant != exp.variant:
                    raise Violation('C08.cols[type]: %s of instance %d comes back as Variant::%s, expected Variant::%s' % (cname, i + 1, got.variant, exp.variant))
                if ex.sat(z3.Not(attrcheck.bits_eq(got, exp))):
                    ex.assume(z3.Not(attrcheck.bits_eq(got, exp)))
                    raise Violation('C08.cols[value]: %s of instance %d does not come back as %s (%s)' % (cname, i + 1, 'its own value' if e[0] != 'default' else 'the database default', case.get('tag', '')))
            else:
                # neutral value of the type: some constant, never depending on another instance's value
                want_variant = Bc.expected_variant(H, e[1], {f: (z3.BoolVal(False) if w == 'bool' else z3.BitVecVal(0, w)) for f, w in Bc.FIELDS[e[1]]}, {}, 0)[2]
                if got.variant != want_variant:
                    raise Violation('C08.cols[type]: %s of instance %d comes back as Variant::%s' % (cname, i + 1, got.variant))
                zero = mk(e[1], {f: (z3.BoolVal(False) if w == 'bool' else z3.BitVecVal(0, w)) for f, w in Bc.FIELDS[e[1]]})
                probe = attrcheck.bits_eq(got, zero)
                if ex.solver.check() == z3.sat:
                    m = ex.solver.model()
                    flat = Bc.model_view(H, m, got)
                    # constant: no other model gives a different view -> ask through bit equality with the evaluated value
                    ex.solver.push()
                    m2_differs = False
                    try:
                        for lab, (kd, vv) in vals.items():
                            pass
                    finally:
                        ex.solver.pop()
                    if _depends_on_inputs(ex, got):
                        raise Violation('C08.cols[leak]: %s of instance %d, which lacked it, depends on another instance\'s value' % (cname, i + 1))
    return 'ok'


def _depends_on_inputs(ex, v):
    """True when some scalar inside the value is not determined by the path condition"""
    if isinstance(v, Sc):
        t = z3.simplify(v.t)
        if z3.is_bv_value(t) or z3.is_true(t) or z3.is_false(t):
            return False
        if ex.solver.check() != z3.sat:
            return False
        c = ex.solver.model().eval(t, model_completion=True)
        return ex.sat(t != c)
    if isinstance(v, (Struct, Enum)):
        return any(_depends_on_inputs(ex, x) for x in v.f)
    if isinstance(v, VecM):
        return any(_depends_on_inputs(ex, x) for x in v.items)
    return False


def det_case(H, ex, case):
    """C07 (binary half): the bytes written are a function of the logical content alone.  A DOM with concrete names, classes and
    property values is serialized under (a) symbolic Ref values, (b) every iteration order of the hash-based containers involved
    (instances map, per-instance property map: `order_mode = perm` forks over all orders) and (c) the property insertion order
    given by the case; every path must produce the same concrete bytes (compared across paths and across the cases of one group
    through `case['group_state']`), and write -> read -> write must reproduce them (fixed point)."""
    A = Atoms(ex)
    shape, classes = list(case['shape']), list(case['classes'])
    n = len(shape) - 1
    props = [[]]
    for i in range(1, n + 1):
        pl = []
        given = list(case['props'].get(i, []))
        if case.get('permute_props') and len(given) > 1:
            perms = list(itertools.permutations(given))
            given = list(perms[ex.nondet(len(perms), 'property insertion order of node %d' % i)])
        for pn, kind, nums in given:
            if kind == 'SharedString':
                pl.append((pn.encode(), Enum('Variant', 'SharedString', [ex.models.ss_make(ex, [mk_int(b, 'u8') for b in nums['bytes']])])))
            else:
                pl.append((pn.encode(), H.const_value(kind, nums)))
        props.append(pl)
    if case.get('ss_rank'):
        # blake3 is a fixed function: the order of the hashes of these contents is one fixed order; the case names it (both orders
        # are run as separate cases with their own expected bytes) so that the paths of one case share one hash function
        rank = {bytes(k): v for k, v in case['ss_rank']}
        vals = getattr(ex.world, 'ss_values', [])
        for (ca, ha), (cb, hb) in itertools.combinations(vals, 2):
            ka, kb = bytes(x.concrete() for x in ca), bytes(x.concrete() for x in cb)
            if ka != kb:
                ex.assume(z3.ULT(ha, hb) if rank[ka] < rank[kb] else z3.ULT(hb, ha))
    dom, refs = build_dom(H, ex, A, shape, classes, props)
    db = H.database(case.get('db'))
    ser = H.S('Serializer', database=Ptr(Cell(db)), compression=Enum('CompressionType', 'None'))
    roots_idx = [i for i in range(1, n + 1) if shape[i] == 0]

    def write(d, root_refs):
        out = VecM([])
        roots = ArrayV(list(root_refs))
        try:
            res = ex.force(ex.call_fn(H.F_SER, [Ptr(Cell(ser)), Ptr(Cell(out)), Ptr(Cell(d)), SliceRef(Ptr(Cell(roots)), 0, len(root_refs))]))
        except PanicPath as p:
            raise Violation('C07.panic[det]: Serializer::serialize panics: %s at %s' % (p.msg, p.site))
        if res.variant != 'Ok':
            raise Violation('C07.reject[det]: Serializer::serialize fails on a plain DOM')
        try:
            return conc(out.items, 'output')
        except Violation:
            raise Violation('C07.det[depends_on_refs]: the written bytes depend on the Ref values of the instances (not determined by the logical content)')
    first = write(dom, [ref_val(refs[i]) for i in roots_idx])
    st = case.setdefault('group_state', {})
    key = case.get('content_key', 'k')
    if key in st and st[key] != first:
        raise Violation('C07.det[order]: the same logical tree is written as different bytes under another hash-iteration / insertion order (first difference at offset %d)' % next(i for i, (a, b) in enumerate(zip(first, st[key])) if a != b) if len(first) == len(st[key]) else 'C07.det[order]: the same logical tree is written with a different length under another order')
    st.setdefault(key, first)
    ex.det_bytes = first
    # fixed point: load what was written, save again
    de = H.deserializer(db)
    try:
        r2 = ex.force(ex.call_fn(H.F_DESER, [Ptr(Cell(de)), Ptr(Cell(iomodels.CursorV([mk_int(b, 'u8') for b in first])))]))
    except PanicPath as p:
        raise Violation('C07.panic[det_read]: reading back panics: %s' % p.msg)
    if r2.variant != 'Ok':
        raise Violation('C07.reject[det_read]: the written file is rejected by the reader')
    dom2 = r2.f[0]
    root2 = dom2.f[H.DH.W['root_ref']]
    insts2 = dom2.f[H.DH.W['instances']]
    rootinst = None
    for k_, c_ in insts2.entries:
        if A.canon(k_) == A.canon(root2):
            rootinst = c_.v
    kids2 = list(rootinst.f[H.DH.I['children']].items)
    second = write(dom2, kids2)
    if second != first:
        raise Violation('C07.det[resave]: saving the loaded file again gives different bytes (load/save is not a fixed point)')
    return 'ok'


def sstr_case(H, ex, case):
    """SharedString columns and the SSTR chunk.  case['insts'] = [{prop name: content length}] (contents symbolic bytes); a property
    an instance lacks is filled with the default (the empty SharedString for an unknown class)."""
    A = Atoms(ex)
    insts = case['insts']
    n = len(insts)
    pnames = sorted({p for d_ in insts for p in d_})
    contents = {}
    props = [[]]
    for i, d_ in enumerate(insts):
        pl = []
        for pn, ln in d_.items():
            c = [sym_int('s%d_%s_%d' % (i, pn, j), 'u8') for j in range(ln)]
            contents[(i, pn)] = c
            pl.append((pn.encode(), Enum('Variant', 'SharedString', [ex.models.ss_make(ex, c)])))
        props.append(pl)
    # which contents coincide is part of the case split (the SSTR layout legitimately depends on it)
    import itertools as _it
    for (ka, a), (kb, b) in _it.combinations(sorted(contents.items()), 2):
        if len(a) == len(b) and a:
            ex.branch(z3.And([x.t == y.t for x, y in zip(a, b)]))
    for i in range(n):
        for pn in pnames:
            contents.setdefault((i, pn), [])             # default: empty shared string
    dom, refs = build_dom(H, ex, A, [-1] + [0] * n, ['DataModel'] + ['A'] * n, props)
    db = H.database(None)
    ser = H.S('Serializer', database=Ptr(Cell(db)), compression=Enum('CompressionType', 'None'))
    out = VecM([])
    roots = ArrayV([ref_val(r) for r in refs[1:]])
    try:
        res = ex.force(ex.call_fn(H.F_SER, [Ptr(Cell(ser)), Ptr(Cell(out)), Ptr(Cell(dom)), SliceRef(Ptr(Cell(roots)), 0, n)]))
    except PanicPath as p:
        raise Violation('C03.panic[sstr:%s]: Serializer::serialize panics on SharedString properties: %s at %s' % (str(getattr(p, 'where', '?')).replace(' ', '_'), p.msg, p.site))
    if res.variant != 'Ok':
        raise Violation('C01.reject[sstr]: Serializer::serialize fails on SharedString properties')
    data = out.items
    ex.input_bytes = data
    ex.sstr_case = dict(contents=contents, pnames=pnames)

    def c03_part():
        ntypes, ninst, chunks = parse_file(data)
        names = [c[0] for c in chunks]
        if names.count(b'SSTR') != 1:
            raise Violation('C03.struct[sstr]: %d SSTR chunks in a file with SharedString values' % names.count(b'SSTR'))
        if b'INST' in names and names.index(b'SSTR') > names.index(b'INST'):
            raise Violation('C03.struct[sstr]: the SSTR chunk comes after an INST chunk')
        body = chunks[names.index(b'SSTR')][1]
        if u32(body[0:4], 'SSTR version') != 0:
            raise Violation('C03.struct[sstr]: SSTR version is not 0')
        cnt = u32(body[4:8], 'SSTR count')
        pos, entries = 8, []
        for _ in range(cnt):
            sv, pos2 = read_string(body, pos + 16, 'shared string')
            entries.append(sv)
            pos = pos2
        if pos != len(body):
            raise Violation('C03.struct[sstr]: SSTR chunk has %d bytes after its %d entries' % (len(body) - pos, cnt))
        eq = lambda a, b: (z3.And([x.t == y.t for x, y in zip(a, b)]) if a else z3.BoolVal(True)) if len(a) == len(b) else z3.BoolVal(False)
        import itertools
        for (ia, a), (ib, b) in itertools.combinations(enumerate(entries), 2):
            if ex.sat(eq(a, b)):
                ex.assume(eq(a, b))
                raise Violation('C03.struct[sstr_dup]: SSTR entries %d and %d can hold the same string (each distinct SharedString is stored once)' % (ia, ib))
        # (an unused extra entry - the writer always registers a column's default value - is not excluded by the property)
        cols = {}
        for nm, b in chunks:
            if nm == b'PROP':
                pn, q = read_string(b, 4, 'property name')
                cols[conc(pn, 'property name').decode()] = (conc(b[q:q + 1], 'type id')[0], b[q + 1:])
        for pn in pnames:
            if pn not in cols:
                raise Violation('C03.struct[prop]: no PROP chunk for %s' % pn)
            tid, vb = cols[pn]
            if tid != 0x1c or len(vb) != 4 * n:
                raise Violation('C03.prop[ser_SharedString]: column %s has type id 0x%02x / %d bytes for %d instances' % (pn, tid, len(vb), n))
            raw = conc(vb, 'SharedString indices')
            for i in range(n):
                idx = int.from_bytes(bytes(raw[i + n * j] for j in range(4)), 'big')
                if idx >= cnt:
                    raise Violation('C03.prop[ser_SharedString]: instance %d of column %s refers to SSTR entry %d of %d' % (i, pn, idx, cnt))
                if ex.sat(z3.Not(eq(entries[idx], contents[(i, pn)]))):
                    raise Violation('C03.prop[ser_SharedString]: instance %d of column %s points at an SSTR entry with another content' % (i, pn))
    _guarded(case, c03_part)
    if case.get('prop') == 'C03':
        return 'ok'
    de = H.deserializer(db)
    try:
        r2 = ex.force(ex.call_fn(H.F_DESER, [Ptr(Cell(de)), Ptr(Cell(iomodels.CursorV(data)))]))
    except PanicPath as p:
        raise Violation('C01.panic[rt_sstr]: reading back panics: %s at %s' % (p.msg, p.site))
    if r2.variant != 'Ok':
        raise Violation('C01.reject[rt_sstr]: the written file is rejected by the reader')
    d = H.DH.snapshot(ex, A, r2.f[0])
    kids = d.nodes[d.root]['children']
    if len(kids) != n:
        raise Violation('C01.tree: %d instances read back, %d written' % (len(kids), n))
    for i, k in enumerate(kids):
        pr = {pk.concrete_bytes().decode(): pv for pk, pv in d.nodes[k]['props']}
        if set(pr) != set(pnames):
            raise Violation('C01.prop[rt_SharedString]: instance %d comes back with properties %s' % (i, sorted(pr)))
        for pn in pnames:
            got = pr[pn]
            if got.variant != 'SharedString':
                raise Violation('C01.prop[rt_SharedString]: %s of instance %d comes back as Variant::%s' % (pn, i, got.variant))
            gc, want = got.f[0].f[0].items, contents[(i, pn)]
            if len(gc) != len(want) or (want and ex.sat(z3.Or([x.t != y.t for x, y in zip(gc, want)]))):
                raise Violation('C01.prop[rt_SharedString]: content of %s of instance %d changes through write + read' % (pn, i))
    return 'ok'


def sersink_case(H, ex, case):
    """C13: Serializer::serialize into a sink with room for k bytes returns an error unless the whole file was written"""
    A = Atoms(ex)
    dom, refs = build_dom(H, ex, A, [-1, 0], ['DataModel', 'A'], [[], [(b'P', Enum('Variant', 'Int32', [sym_int('v', 'i32')]))]])
    db = H.database(None)
    ser = H.S('Serializer', database=Ptr(Cell(db)), compression=Enum('CompressionType', 'None'))

    def write(sink):
        roots = ArrayV([ref_val(refs[1])])
        try:
            return ex.force(ex.call_fn(H.F_SER, [Ptr(Cell(ser)), Ptr(Cell(sink)), Ptr(Cell(dom)), SliceRef(Ptr(Cell(roots)), 0, 1)]))
        except PanicPath as p:
            raise Violation('C13.panic[ser_sink]: Serializer::serialize panics when the sink fails: %s at %s' % (p.msg, p.site))
    full = VecM([])
    if write(full).variant != 'Ok':
        raise Violation('C13.sink: Serializer::serialize fails into a plain Vec')
    total = len(full.items)
    k = case['room'] if case['room'] >= 0 else total + case['room']          # negative: counted from the end of the file
    if k < 0 or k >= total:
        raise Infeasible()
    sink = iomodels.SinkV(limit=k)
    r = write(sink)
    ex.sersink = dict(room=k, total=total)
    if r.variant == 'Ok':
        raise Violation('C13.sink[ser_sink]: Serializer::serialize reports success although the sink took only %d of the %d bytes (room for %d)' % (len(sink.out), total, k))
    return 'err'


def run_case(H, ex, case):
    what = case['what']
    _EX[0] = ex
    if what == 'sersink':
        return sersink_case(H, ex, case)
    if what == 'sstr':
        return sstr_case(H, ex, case)
    if what == 'det':
        return det_case(H, ex, case)
    if what == 'cols':
        return cols_case(H, ex, case)
    if what == 'sertree':
        return tree_case(H, ex, case)
    if what != 'ser':
        raise Unsupported('case ' + what)
    kind, n = case['kind'], case['n']
    opts = dict(case.get('opts', {}))
    A = Atoms(ex)
    vals = []
    for i in range(n):
        v = {}
        for fld, w in (Bc.FIELDS[kind] if kind != 'String' else [('b%d' % j, 8) for j in range(max(opts['len']))]):
            v[fld] = z3.Bool('p%d_%s' % (i, fld)) if w == 'bool' else z3.BitVec('p%d_%s' % (i, fld), w)
        vals.append(v)
    if kind in ('Faces', 'Axes'):
        for v in vals:
            ex.assume(z3.ULT(v['v'], 64 if kind == 'Faces' else 8))
    if kind == 'BrickColor':
        for v, num in zip(vals, opts['numbers']):
            ex.assume(v['v'] == num)
    if kind == 'Font':
        for v in vals:
            for fld in ('fam', 'face'):
                ex.assume(z3.And(z3.UGE(v[fld], 0x20), z3.ULT(v[fld], 0x7f)))
    if kind == 'OptionalCFrame':
        for v, pres in zip(vals, opts['present']):
            for j in range(9):
                e = z3.Extract(30, 23, v['m%d' % j])
                ex.assume(z3.And(z3.UGE(e, 128), z3.ULT(e, 255)))
    if kind == 'CFrame':
        # general matrices only (rotation id 0): entries away from the 24 basic rotations (|x| >= 2), the snap is K4's subject
        opts['rot'] = [0] * n
        opts['rot_matrix'] = [None] * n
        for v in vals:
            for j in range(9):
                e = z3.Extract(30, 23, v['m%d' % j])
                ex.assume(z3.And(z3.UGE(e, 128), z3.ULT(e, 255)))
    values = [Bc.build_value(H, Bc.expected_variant(H, kind, vals[i], opts, i)) for i in range(n)]
    if kind == 'String':
        # written from a Variant::String holding UTF-8 text (read back as BinaryString for an unknown property)
        for i in range(n):
            if opts['len'][i] > 64:
                # long strings: only the length matters here; concrete ASCII content keeps the path condition small
                for j in range(opts['len'][i]):
                    vals[i]['b%d' % j] = z3.BitVecVal(0x61 + j % 26, 8)
            bs = [Sc(vals[i]['b%d' % j], 'u8') for j in range(opts['len'][i])]
            if opts['len'][i] <= 64:
                ex.assume(iomodels.utf8_valid(bs))
            values[i] = Enum('Variant', 'String', [StrV(bs, None)])
    classes = ['DataModel'] + [case.get('cls', 'A')] * n
    shape = [-1] + [0] * n
    missing = set(case.get('missing', ()))          # instances that do not carry P: the column still has one value for them (a default)
    props = [[]] + [([] if i in missing else [(b'P', values[i])]) for i in range(n)]
    dom, refs = build_dom(H, ex, A, shape, classes, props)
    db = H.database(case.get('classes'))
    ser = H.S('Serializer', database=Ptr(Cell(db)), compression=Enum('CompressionType', 'None'))
    out = VecM([])
    roots = ArrayV([ref_val(r) for r in refs[1:]])
    try:
        res = ex.force(ex.call_fn(H.F_SER, [Ptr(Cell(ser)), Ptr(Cell(out)), Ptr(Cell(dom)), SliceRef(Ptr(Cell(roots)), 0, n)]))
    except PanicPath as p:
        raise Violation('C03.panic[ser_%s:%s]: Serializer::serialize panics: %s at %s' % (kind, str(getattr(p, 'where', '?')).replace(' ', '_'), p.msg, p.site))
    ex.ser_case = dict(kind=kind, vals=vals, opts=opts)
    if res.variant != 'Ok':
        raise Violation('C01.reject[ser_%s]: Serializer::serialize fails on a DOM with a %s property' % (kind, kind))
    data = out.items
    ex.input_bytes = data
    def c03_part():
        ntypes, ninst, chunks = parse_file(data)
        names = [c[0] for c in chunks]
        if ntypes != 1 or ninst != n:
            raise Violation('C03.struct[header_counts]: header says %d classes / %d instances, the DOM has 1 / %d' % (ntypes, ninst, n))
        if not chunks or names[-1] != b'END\0' or conc(chunks[-1][1], 'END body') != b'</roblox>':
            raise Violation('C03.struct[end]: the file does not end with an END chunk holding </roblox>')
        if names.count(b'PRNT') != 1 or names.index(b'PRNT') != len(names) - 2:
            raise Violation('C03.struct[prnt]: there must be exactly one PRNT chunk, right before END (chunks: %s)' % names)
        insts = [c for c in chunks if c[0] == b'INST']
        if len(insts) != 1:
            raise Violation('C03.struct[inst]: %d INST chunks for one class' % len(insts))
        ib = insts[0][1]
        cid = u32(ib[0:4], 'class id')
        cname, p_ = read_string(ib, 4, 'class name')
        if conc(cname, 'class name') != classes[1].encode():
            raise Violation('C03.struct[inst]: INST class name %r' % conc(cname, 'class name'))
        fmt = conc(ib[p_:p_ + 1], 'object format')[0]
        cnt = u32(ib[p_ + 1:p_ + 5], 'instance count')
        if cnt != n or fmt != 0:
            raise Violation('C03.struct[inst]: INST chunk lists %d instances in format %d, the DOM has %d regular ones' % (cnt, fmt, n))
        if len(ib) != p_ + 5 + 4 * n:
            raise Violation('C03.struct[inst]: INST chunk has %d bytes, %d expected' % (len(ib), p_ + 5 + 4 * n))
        file_refs = un_referents(ib[p_ + 5:], n, 'INST referents')
        if len(set(file_refs)) != n:
            raise Violation('C03.struct[inst]: referents are not distinct: %s' % file_refs)
        pb = [c for c in chunks if c[0] == b'PROP']
        seen = {}
        for _, body in pb:
            if u32(body[0:4], 'PROP class id') != cid:
                raise Violation('C03.struct[prop]: PROP chunk names class id %d, INST declared %d' % (u32(body[0:4], 'x'), cid))
            pname, q = read_string(body, 4, 'property name')
            pname = conc(pname, 'property name')
            if pname in seen:
                raise Violation('C03.struct[prop]: two PROP chunks for property %r' % pname)
            seen[pname] = (conc(body[q:q + 1], 'type id')[0], body[q + 1:])
        if set(seen) != {b'Name', b'P'}:
            raise Violation('C03.struct[prop]: PROP chunks %s, the instances carry Name and P' % sorted(seen))
        tid, nbytes = seen[b'Name']
        want = []
        for i in range(n):
            want += Bc.spec_string(('N%d' % (i + 1)).encode())
        # instances of the class are written in the order of the INST referent list = order of file_refs; roots were given in DOM order
        if tid != 0x01 or len(nbytes) != len(want) or conc(nbytes, 'Name values') != conc(want, 'x'):
            raise Violation('C03.prop[ser_Name]: Name column is not the String encoding of the instance names')
        tid, vbytes = seen[b'P']
        want_tid = Bc.PROP_TYPES[kind]
        if tid != want_tid:
            raise Violation('C03.prop[ser_%s]: property P is written with type id 0x%02x, docs/binary.md gives %s the id 0x%02x' % (kind, tid, kind, want_tid))
        if kind in Bc.NOSPEC:
            spec = None
        else:
            spec = Bc.spec_prop_values(kind, vals, opts)
        if spec is not None and len(vbytes) != len(spec):
            raise Violation('C03.prop[ser_%s]: Values section has %d bytes, the specification gives %d' % (kind, len(vbytes), len(spec)))
        if missing and spec:
            # the value written for an instance without the property is some constant default: find it, then the column must be
            # the specified encoding of (given values, that default) for every choice of the given values
            same = z3.And([a.t == b_.t for a, b_ in zip(vbytes, spec)])
            ex.solver.push()
            ex.solver.add(same)
            r_ = ex.solver.check()
            m0 = ex.solver.model() if r_ == z3.sat else None
            ex.solver.pop()
            if m0 is None:
                raise Violation('C03.prop[ser_%s_default]: no value for the instance lacking the property makes the column a valid encoding' % kind)
            subst = []
            for i in missing:
                for fld, t in vals[i].items():
                    subst.append((t, m0.eval(t, model_completion=True)))
            spec = [Sc(z3.simplify(z3.substitute(b_.t, *subst)), 'u8') for b_ in spec]
        if spec and ex.sat(z3.Or([a.t != b_.t for a, b_ in zip(vbytes, spec)])):
            ex.assume(z3.Or([a.t != b_.t for a, b_ in zip(vbytes, spec)]))          # the model reported / replayed is a witness
            raise Violation('C03.prop[ser_%s]: Values section differs from the encoding docs/binary.md specifies for these values' % kind)
        prnt = chunks[-2][1]
        if conc(prnt[0:1], 'PRNT version') != b'\0' or u32(prnt[1:5], 'PRNT count') != n or len(prnt) != 5 + 8 * n:
            raise Violation('C03.struct[prnt]: PRNT chunk malformed (version / count / length)')
        ch, pa = un_referents(prnt[5:5 + 4 * n], n, 'PRNT children'), un_referents(prnt[5 + 4 * n:], n, 'PRNT parents')
        if sorted(ch) != sorted(file_refs) or any(p != -1 for p in pa):
            raise Violation('C03.struct[prnt]: PRNT lists children %s with parents %s; the written instances %s are all roots' % (ch, pa, file_refs))
        for nm in names[:-2]:
            if nm not in (b'META', b'SSTR', b'INST', b'PROP'):
                raise Violation('C03.struct[chunk]: unexpected chunk %r' % nm)
    _guarded(case, c03_part)
    # ---- C01: read back with the real reader
    if case.get('roundtrip', True) and case.get('prop') != 'C03':
        de = H.deserializer(db)
        try:
            r2 = ex.force(ex.call_fn(H.F_DESER, [Ptr(Cell(de)), Ptr(Cell(iomodels.CursorV(data)))]))
        except PanicPath as p:
            raise Violation('C01.panic[rt_%s]: reading back the written file panics: %s at %s' % (kind, p.msg, p.site))
        if r2.variant != 'Ok':
            raise Violation('C01.reject[rt_%s]: the written file is rejected by the reader' % kind)
        d = H.DH.snapshot(ex, A, r2.f[0])
        kids = d.nodes[d.root]['children']
        if len(kids) != n:
            raise Violation('C01.tree: %d instances read back, %d written' % (len(kids), n))
        from . import attrcheck
        for i, k in enumerate(kids):
            node = d.nodes[k]
            if not isinstance(node['name'], StrV):
                raise Unsupported('instance name is %r' % (node['name'],))
            if node['cls'].concrete_bytes() != classes[1].encode() or node['name'].concrete_bytes() != ('N%d' % (i + 1)).encode():
                raise Violation('C01.tree: instance %d comes back as %r named %r' % (i, node['cls'].concrete_bytes(), node['name'].concrete_bytes()))
            pr = {pk.concrete_bytes(): pv for pk, pv in node['props']}
            if set(pr) != {b'P'}:
                raise Violation('C01.prop[rt_%s]: instance %d comes back with properties %s' % (kind, i, sorted(pr)))
            exp = Bc.build_value(H, Bc.expected_variant(H, kind, vals[i], opts, i))
            got = pr[b'P']
            if got.variant != exp.variant:
                raise Violation('C01.prop[rt_%s]: value comes back as Variant::%s, written Variant::%s' % (kind, got.variant, exp.variant))
            if i in missing:
                continue            # gained with a default value (permitted normalisation); its type was checked
            if ex.sat(z3.Not(attrcheck.bits_eq(got, exp))):
                ex.assume(z3.Not(attrcheck.bits_eq(got, exp)))
                raise Violation('C01.prop[rt_%s]: value of instance %d changes through write + read' % (kind, i))
    return 'ok'


def explore(prog, case, stats=None, max_paths=20000, budget_s=600, max_viol=4, models=None):
    H = SerHarness(prog)
    stats = stats or Stats()
    M = models or Bc.make_models(prog)
    M.order_mode = case.get('order_mode', 'insertion')
    res = dict(paths=0, ok=0, err=0, infeasible=0, violations=[], unsupported=None)
    work, seen, t0 = [[]], set(), time.time()
    while work:
        dec = work.pop()
        ex = Exec(prog, M, dec, stats)
        ex.world = World()
        ex.range_limit = case.get('range_limit', 64)
        if ex.range_limit > 64:
            import sys as _sys
            _sys.setrecursionlimit(max(_sys.getrecursionlimit(), 60 * ex.range_limit))
        ex.max_steps = max(ex.max_steps, 800 * ex.range_limit)
        try:
            r = run_case(H, ex, case)
            res['paths'] += 1
            res['ok'] += 1
            stats.paths += 1
        except Infeasible:
            res['infeasible'] += 1
        except Violation as v:
            res['paths'] += 1
            import re
            m = re.search(r'\[([\w:]+)\]', v.label)
            key = m.group(1) if m else v.label.split(':')[0]
            if key not in seen:
                seen.add(key)
                try:
                    ok_, path_, detail_ = confirm(H, ex, case, v.label)
                except Exception as e_:
                    ok_, path_, detail_ = False, None, 'replay machinery failed: %r' % (e_,)
                res['violations'].append(dict(label=v.label, case=dict(case), confirmed=ok_, replay=path_, replay_detail=detail_))
            if len(res['violations']) >= max_viol:
                break
        except (Unsupported, BoundExceeded) as u:
            res['unsupported'] = '%s: %s' % (type(u).__name__, u)
            break
        work.extend(ex.pending)
        if res['paths'] + res['infeasible'] > max_paths:
            res['unsupported'] = 'path bound %d exceeded' % max_paths
            break
        if time.time() - t0 > budget_s:
            res['unsupported'] = 'time budget %ds exceeded after %d paths' % (budget_s, res['paths'])
            break
    return res


def value_json(kind, v, opts, i, ev):
    """the replayer's `build` input for one value (bit patterns)"""
    sg = lambda t: (lambda x, w: x - (1 << w) if x >= 1 << (w - 1) else x)(ev(t), t.size())
    g = lambda *fs: [ev(v[f]) for f in fs]
    if kind == 'Bool':
        return kind, bool(ev(z3.If(v['v'], z3.BitVecVal(1, 1), z3.BitVecVal(0, 1))))
    if kind in ('Int32', 'Int64'):
        return kind, sg(v['v'])
    if kind in ('Float32', 'Float64', 'Faces', 'Axes', 'Enum'):
        return kind, ev(v['v'])
    if kind == 'BrickColor':
        return kind, opts['numbers'][i]
    if kind == 'UDim':
        return kind, [ev(v['scale']), sg(v['offset'])]
    if kind == 'UDim2':
        return kind, [ev(v['xs']), sg(v['xo']), ev(v['ys']), sg(v['yo'])]
    if kind == 'Ray':
        return kind, g('ox', 'oy', 'oz', 'dx', 'dy', 'dz')
    if kind == 'Color3':
        return kind, g('r', 'g', 'b')
    if kind == 'Color3uint8':
        return kind, g('r', 'g', 'b')
    if kind == 'Vector2':
        return kind, g('x', 'y')
    if kind == 'Vector3':
        return kind, g('x', 'y', 'z')
    if kind == 'Vector3int16':
        return kind, [sg(v['x']), sg(v['y']), sg(v['z'])]
    if kind == 'NumberRange':
        return kind, g('min', 'max')
    if kind == 'Rect':
        return kind, g('minx', 'miny', 'maxx', 'maxy')
    if kind == 'PhysicalProperties':
        return kind, (g('density', 'friction', 'elasticity', 'fw', 'ew') if opts['custom'][i] else None)
    if kind == 'String':
        return kind, [ev(v['b%d' % j]) for j in range(opts['len'][i])]
    if kind == 'NumberSequence':
        return kind, [g('t', 'v', 'e')] * opts['len'][i]
    if kind == 'ColorSequence':
        return kind, [g('t', 'r', 'g', 'b')] * opts['len'][i]
    if kind == 'UniqueId':
        return kind, [ev(v['index']), ev(v['time']), sg(v['random'])]
    if kind == 'SecurityCapabilities':
        return kind, ev(v['v'])
    if kind == 'OptionalCFrame':
        return kind, (g('px', 'py', 'pz', *['m%d' % j for j in range(9)]) if opts['present'][i] else None)
    if kind == 'Font':
        return kind, [opts['weight'][i], opts['style'][i], [ev(v['fam'])], ([ev(v['face'])] if opts['face'][i] else None)]
    if kind == 'CFrame':
        return kind, g('px', 'py', 'pz', *['m%d' % j for j in range(9)])
    raise Unsupported('replay value for ' + kind)


def confirm(H, ex, case, label):
    """native: the same DOM (bit patterns from the solver model) through the real Serializer / Deserializer (tools/replayer bytes
    binary-encode); C03 labels: the P Values section of the real file differs from the specification's bytes; C01 labels: the
    value read back differs from the one written (or writing / reading fails)"""
    import hashlib
    from .. import common as C, gen
    if case['what'] == 'cols':
        return confirm_cols(H, ex, case, label)
    if case['what'] == 'sstr':
        return confirm_sstr(H, ex, case, label)
    if case['what'] == 'det':
        return confirm_det(H, ex, case, label)
    if case['what'] == 'sertree':
        return confirm_tree(H, ex, case, label)
    if case['what'] == 'sersink':
        # same replay as the chunk sink obligation: the public writer into a limited sink, every room below the file size
        return Bc.confirm(H, ex, dict(what='dump', len=0, room=0), label)
    if ex.solver.check() != z3.sat or not getattr(ex, 'ser_case', None):
        return False, None, 'no model / case state for a replay'
    m = ex.solver.model()
    ev = lambda t: m.eval(t, model_completion=True).as_long()
    sc = ex.ser_case
    kind, vals, opts = sc['kind'], sc['vals'], sc['opts']
    spec = dict(prop='P', db=Bc.db_json(case.get('classes')), values=[])
    spec['class'] = case.get('cls', 'A')
    for i, v in enumerate(vals):
        k, j = value_json(kind, v, opts, i, ev)
        spec['values'].append(dict(kind=k, v=j))
    os.makedirs(C.REPLAYS, exist_ok=True)
    tag = hashlib.sha256(json.dumps(spec, sort_keys=True).encode()).hexdigest()[:10]
    inp = os.path.join(C.REPLAYS, '%s_ser_%s.input.json' % (label.split('.')[0], tag))
    json.dump(spec, open(inp, 'w'))
    rc, out, _ = C.run([gen.tool('replayer'), 'bytes', 'binary-encode', inp], timeout=60)
    path = os.path.join(C.REPLAYS, '%s_ser_%s.json' % (label.split('.')[0], tag))
    ok, detail = False, 'native: ' + out.strip()[-200:]
    try:
        r = json.loads(out.strip().split('\n')[-1]) if 'PANIC' not in out else None
    except Exception:
        r = None
    if 'panic' in label:
        ok = 'PANIC' in out
    elif 'reject' in label:
        ok = r is not None and ('write_err' in r or 'read_err' in r)
    elif r is not None and 'file' in r and label.startswith('C03'):
        data = [mk_int(b, 'u8') for b in bytes.fromhex(r['file'])]
        try:
            _, _, chunks = parse_file(data)
            got = None
            for nm, body in chunks:
                if nm == b'PROP':
                    pn, q = read_string(body, 4, 'name')
                    if conc(pn, 'name') == b'P':
                        got = list(conc(body[q + 1:], 'values'))
            want = [ev(b.t) for b in Bc.spec_prop_values(kind, vals, opts)]
            ok = got != want
            detail = 'native file: P values %s, docs/binary.md encoding of the same values %s' % (bytes(got or b'').hex()[:80], bytes(want).hex()[:80])
        except Violation as v_:
            ok, detail = True, 'native file is structurally broken: ' + v_.label
    elif r is not None and 'decoded' in r:
        insts = r['decoded'][1:]
        got = [dict(map(tuple, x['props'])).get('P') for x in insts]
        want = [Bc.model_view(H, m, Bc.build_value(H, Bc.expected_variant(H, kind, vals[i], opts, i))) for i in range(len(vals))]
        ok = got != want
        detail = 'native: read back %s, written %s' % (json.dumps(got)[:150], json.dumps(want)[:150])
    json.dump(dict(property=label.split('.')[0], label=label, input=spec, native=out[-1200:], confirmed=ok, detail=detail,
                   how='tools/replayer bytes binary-encode %s' % inp), open(path, 'w'), indent=1)
    return ok, path, detail


def confirm_cols(H, ex, case, label):
    """native: the same instances (values from the solver model) and the same custom database through tools/replayer bytes binary-encode"""
    import hashlib
    from .. import common as C, gen
    if ex.solver.check() != z3.sat:
        return False, None, 'path condition unsatisfiable at report time'
    m = ex.solver.model()
    vals = ex.cols_case['vals']

    def nums(label_):
        kind, v = vals[label_]
        out = {}
        for fld, w in Bc.FIELDS[kind]:
            out[fld] = bool(z3.is_true(m.eval(v[fld], model_completion=True))) if w == 'bool' else m.eval(v[fld], model_completion=True).as_long()
        return out
    spec = {'class': case.get('cls', 'K'), 'db': Bc.db_json(case['db']), 'instances': [[[pn, kind, nums(lab)] for pn, kind, lab in plist] for plist in case['insts']]}
    os.makedirs(C.REPLAYS, exist_ok=True)
    tag = hashlib.sha256(json.dumps(spec, sort_keys=True).encode()).hexdigest()[:10]
    inp = os.path.join(C.REPLAYS, 'C08_cols_%s.input.json' % tag)
    json.dump(spec, open(inp, 'w'))
    rc, out, _ = C.run([gen.tool('replayer'), 'bytes', 'binary-encode', inp], timeout=60)
    path = os.path.join(C.REPLAYS, 'C08_cols_%s.json' % tag)
    try:
        r = json.loads(out.strip().split('\n')[-1]) if 'PANIC' not in out else None
    except Exception:
        r = None
    ok, detail = False, 'native: ' + out.strip()[-220:]
    mk = lambda kind, v: Bc.build_value(H, Bc.expected_variant(H, kind, v, {}, 0))
    if 'panic' in label:
        ok = 'PANIC' in out
    elif 'reject' in label:
        ok = r is not None and ('write_err' in r or 'read_err' in r)
    elif r is not None and 'decoded' in r:
        got = [dict(map(tuple, x['props'])) for x in r['decoded'][1:]]
        bad = []
        for i, e in enumerate(case['expect']):
            if i >= len(got) or set(got[i]) != set(e):
                bad.append('instance %d has %s' % (i + 1, sorted(got[i]) if i < len(got) else None))
                continue
            for cname, x in e.items():
                if x[0] == 'val':
                    want = Bc.model_view(H, m, mk(x[2], vals[x[1]][1]))
                elif x[0] == 'migrated_inset':
                    want = {'Enum': 1 if nums(x[1])['v'] else 2}
                elif x[2] is not None:
                    want = Bc.model_view(H, m, H.const_value(x[1], x[2]))
                else:
                    continue
                if got[i][cname] != want:
                    bad.append('%s of instance %d is %s, expected %s' % (cname, i + 1, json.dumps(got[i][cname]), json.dumps(want)))
        ok, detail = bool(bad), 'native: ' + ('; '.join(bad)[:300] if bad else 'all values as expected')
    json.dump(dict(property='C08', label=label, input=spec, native=out[-1200:], confirmed=ok, detail=detail, how='tools/replayer bytes binary-encode %s' % inp), open(path, 'w'), indent=1)
    return ok, path, detail


def confirm_sstr(H, ex, case, label):
    import hashlib
    from .. import common as C, gen
    if ex.solver.check() != z3.sat or not getattr(ex, 'sstr_case', None):
        return False, None, 'no model / case state for a replay'
    m = ex.solver.model()
    cont = ex.sstr_case['contents']
    ev = lambda bs: [m.eval(b.t, model_completion=True).as_long() for b in bs]
    spec = {'class': 'A', 'db': {}, 'instances': [[[pn, 'SharedString', {'bytes': ev(cont[(i, pn)])}] for pn in d_] for i, d_ in enumerate(case['insts'])]}
    os.makedirs(C.REPLAYS, exist_ok=True)
    tag = hashlib.sha256(json.dumps(spec, sort_keys=True).encode()).hexdigest()[:10]
    inp = os.path.join(C.REPLAYS, '%s_sstr_%s.input.json' % (label.split('.')[0], tag))
    json.dump(spec, open(inp, 'w'))
    rc, out, _ = C.run([gen.tool('replayer'), 'bytes', 'binary-encode', inp], timeout=60)
    path = os.path.join(C.REPLAYS, '%s_sstr_%s.json' % (label.split('.')[0], tag))
    try:
        r = json.loads(out.strip().split('\n')[-1]) if 'PANIC' not in out else None
    except Exception:
        r = None
    ok, detail = False, 'native: ' + out.strip()[-200:]
    if 'panic' in label:
        ok = 'PANIC' in out
    elif 'reject' in label:
        ok = r is not None and ('write_err' in r or 'read_err' in r)
    elif r is not None and 'file' in r and label.startswith('C03'):
        data = [mk_int(b, 'u8') for b in bytes.fromhex(r['file'])]
        try:
            _, _, chunks = parse_file(data)
            ents = []
            for nm, body in chunks:
                if nm == b'SSTR':
                    cnt, pos = u32(body[4:8], 'count'), 8
                    for _ in range(cnt):
                        sv, pos = read_string(body, pos + 16, 'entry')
                        ents.append(conc(sv, 'entry'))
            ok = len(set(ents)) != len(ents) if 'dup' in label else True
            detail = 'native file: SSTR entries %s' % [e.hex() for e in ents]
        except Violation as v_:
            ok, detail = True, 'native file is structurally broken: ' + v_.label
    elif r is not None and 'decoded' in r:
        want = [{pn: {'SharedString': ev(cont[(i, pn)])} for pn in ex.sstr_case['pnames']} for i in range(len(case['insts']))]
        got = [dict(map(tuple, x['props'])) for x in r['decoded'][1:]]
        ok, detail = got != want, 'native: read back %s, written %s' % (json.dumps(got)[:150], json.dumps(want)[:150])
    json.dump(dict(property=label.split('.')[0], label=label, input=spec, native=out[-1200:], confirmed=ok, detail=detail, how='tools/replayer bytes binary-encode %s' % inp), open(path, 'w'), indent=1)
    return ok, path, detail


def confirm_det(H, ex, case, label):
    """native: the same concrete DOM through tools/replayer bytes binary-det (write, write with reversed property lists, load + save)"""
    import hashlib
    from .. import common as C, gen
    shape, classes = list(case['shape']), list(case['classes'])
    nodes = []
    for i in range(1, len(shape)):
        nodes.append({'class': classes[i], 'parent': (shape[i] - 1) if shape[i] > 0 else None, 'props': [[pn, kind, nums] for pn, kind, nums in case['props'].get(i, [])]})
    spec = {'db': Bc.db_json(case.get('db')), 'nodes': nodes}
    os.makedirs(C.REPLAYS, exist_ok=True)
    tag = hashlib.sha256(json.dumps(spec, sort_keys=True).encode()).hexdigest()[:10]
    inp = os.path.join(C.REPLAYS, 'C07_det_%s.input.json' % tag)
    json.dump(spec, open(inp, 'w'))
    rc, out, _ = C.run([gen.tool('replayer'), 'bytes', 'binary-det', inp], timeout=60)
    path = os.path.join(C.REPLAYS, 'C07_det_%s.json' % tag)
    try:
        r = json.loads(out.strip().split('\n')[-1]) if 'PANIC' not in out else None
    except Exception:
        r = None
    ok = 'PANIC' in out or (r is not None and (not r.get('resave_equal') or not r.get('reversed_equal') or r.get('first_err')))
    if r is not None and 'first' in r and getattr(ex, 'det_bytes', None) is not None and not ok:
        ok = bytes.fromhex(r['first']) != ex.det_bytes and 'order' in label
    detail = 'native: %s' % ({k: v for k, v in (r or {}).items() if k != 'first'} or out.strip()[-200:])
    json.dump(dict(property='C07', label=label, input=spec, native=out[-800:], confirmed=bool(ok), detail=detail, how='tools/replayer bytes binary-det %s' % inp), open(path, 'w'), indent=1)
    return bool(ok), path, detail


def confirm_tree(H, ex, case, label):
    """native: the same forest (Refs, Content values, service classes, root selection) through tools/replayer bytes binary-tree; C03
    labels: the structural checks of this module are re-run on the bytes the real writer produced; C01 labels: the decoded view is
    compared with the forest that was written"""
    import hashlib
    from .. import common as C, gen
    shape, classes = list(case['shape']), list(case['classes'])
    n = len(shape) - 1

    def tj(t):
        if t is None:
            return None
        if isinstance(t, tuple):
            return {'uri': [t[1]]}
        if t == 'none':
            return {'none': 1}
        if t == 'outside':
            return {'outside': 1}
        return {'node': t - 1}
    nodes = [{'class': classes[i], 'parent': (shape[i] - 1) if shape[i] > 0 else None, 'ref': tj(case.get('refs', {}).get(i)), 'content': tj(case.get('crefs', {}).get(i))} for i in range(1, n + 1)]
    tc = getattr(ex, 'tree_case', None) or {}
    roots = [r - 1 for r in (tc.get('roots') or [i for i in range(1, n + 1) if shape[i] == 0])]
    spec = {'db': Bc.db_json(case.get('db')), 'nodes': nodes, 'roots': roots}
    os.makedirs(C.REPLAYS, exist_ok=True)
    tag = hashlib.sha256(json.dumps(spec, sort_keys=True).encode()).hexdigest()[:10]
    inp = os.path.join(C.REPLAYS, '%s_tree_%s.input.json' % (label.split('.')[0], tag))
    json.dump(spec, open(inp, 'w'))
    rc, out, _ = C.run([gen.tool('replayer'), 'bytes', 'binary-tree', inp], timeout=60)
    path = os.path.join(C.REPLAYS, '%s_tree_%s.json' % (label.split('.')[0], tag))
    try:
        r = json.loads(out.strip().split('\n')[-1]) if 'PANIC' not in out else None
    except Exception:
        r = None
    ok, detail = False, 'native: ' + out.strip()[-200:]
    if 'panic' in label:
        ok = 'PANIC' in out
    elif 'reject' in label:
        ok = r is not None and ('write_err' in r or 'read_err' in r)
    elif r is not None and 'file' in r and label.startswith('C03') and getattr(ex, 'c03_tree', None):
        try:
            ex.c03_tree([mk_int(b, 'u8') for b in bytes.fromhex(r['file'])])
            detail = 'native file passes the structural checks'
        except Violation as v_:
            ok, detail = True, 'native file: ' + v_.label[:260]
    elif r is not None and 'decoded' in r:
        written = tc.get('written') or list(range(1, n + 1))
        order = []

        def walk(i):
            order.append(i)
            for c_ in range(1, n + 1):
                if shape[c_] == i:
                    walk(c_)
        for r_ in [x + 1 for x in roots]:
            walk(r_)
        pos = {node: k + 1 for k, node in enumerate(order)}

        def exp_t(t, content):
            if content and isinstance(t, tuple):
                return {'Content': {'Uri': [t[1]]}}
            if t == 'none' and content:
                return {'Content': None}
            tgt = pos.get(t) if isinstance(t, int) else None
            return {'Content': {'Object': tgt}} if content else {'Ref': tgt}
        want = []
        for node in order:
            props = {}
            if node in case.get('refs', {}):
                props['R'] = exp_t(case['refs'][node], False)
            if node in case.get('crefs', {}):
                props['C'] = exp_t(case['crefs'][node], True)
            want.append([classes[node], 'N%d' % node, 0 if node in [x + 1 for x in roots] else pos[shape[node]], props])
        got = [[x['class'], bytes(x['name']).decode(), x['parent'], dict(map(tuple, x['props']))] for x in r['decoded'][1:]]
        ok = got != want
        detail = 'native: read back %s, written %s' % (json.dumps(got)[:160], json.dumps(want)[:160])
    json.dump(dict(property=label.split('.')[0], label=label, input=spec, native=out[-1000:], confirmed=ok, detail=detail, how='tools/replayer bytes binary-tree %s' % inp), open(path, 'w'), indent=1)
    return ok, path, detail
