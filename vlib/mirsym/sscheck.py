"""C18: SharedString interning under all interleavings (real MIR of new / clone / drop)."""
import time
import z3
from .values import *
from .interp import Exec, Stats
from .rbx_models import RbxModels, World
from .models import deref
from . import threads as T


class SSHarness:
    def __init__(self, prog):
        self.prog = prog
        self.F_NEW = prog.resolve('SharedString::new')
        self.F_CLONE = prog.resolve('<SharedString as Clone>::clone')
        self.F_DROP = prog.resolve('<SharedString as Drop>::drop')
        self.F_DATA = prog.resolve('SharedString::data')
        self.F_EQ = prog.resolve('<SharedString as PartialEq>::eq')
        for n in ('F_NEW', 'F_CLONE', 'F_DROP', 'F_DATA', 'F_EQ'):
            if getattr(self, n) is None:
                raise Unsupported('SharedString function not found in MIR: ' + n)
        self.i_data = prog.field('SharedString', 'data')
        self.i_hash = prog.field('SharedString', 'hash')


def make_models(H):
    M = RbxModels()
    T.register(M, lambda ex: getattr(ex.world, 'sched', None))

    @M.rx(r'^blake3::hash$', 'blake3::hash (injective uninterpreted function of the content)')
    def _blake3(ex, m, args, callee, dest):
        s = args[0]
        items = s.items() if isinstance(s, SliceRef) else deref(s).items
        if len(items) != 1:
            raise Unsupported('blake3 model expects the opaque one-symbol content')
        return Struct([Sc(items[0].t, 'hash')], 'Hash')

    @M.path('Hash', 'as_bytes')
    def _hash_bytes(ex, args, info):
        return Ptr(Cell(ArrayV([deref(args[0]).f[0]])))

    def drop_shared_string(ex, v):
        ex.call_fn(H.F_DROP, [Ptr(Cell(v))])
    M.drop_handlers['SharedString'] = drop_shared_string
    return M


class Run:
    """one schedule/program of the exploration"""

    def __init__(self, H, ex, cfg):
        self.H, self.ex, self.cfg = H, ex, cfg
        self.live = []       # dict(owner, handle(Struct), content(z3 term), id)
        self.nid = 0
        self.log = []
        self.setup_len = 0
        self.drop_index = {}
        self.must_eq = set()
        self.must_ne = set()

    def surely_equal(self, a, b):
        if a.eq(b):
            return True
        k = (a.get_id(), b.get_id())
        if k in self.must_eq:
            return True
        if self.ex.sat(a != b):
            return False
        self.must_eq.add(k)
        return True

    def surely_different(self, a, b):
        if a.eq(b):
            return False
        k = (a.get_id(), b.get_id())
        if k in self.must_ne:
            return True
        if self.ex.sat(a == b):
            return False
        self.must_ne.add(k)
        return True

    def content(self, name):
        return z3.Int(name)

    def new(self, tid, name):
        ex, H = self.ex, self.H
        c = self.content(name)
        self.log.append((tid, 'new', name))
        h = ex.call_fn(H.F_NEW, [VecM([Sc(c, 'content')])])
        self.nid += 1
        self.live.append(dict(owner=tid, handle=h, content=c, id=self.nid, name=name))
        return h

    def clone(self, tid, i):
        ex, H = self.ex, self.H
        src = [x for x in self.live if x['owner'] == tid][i]
        self.log.append((tid, 'clone', src['name']))
        h = ex.call_fn(H.F_CLONE, [Ptr(Cell(src['handle']))])
        self.nid += 1
        self.live.append(dict(owner=tid, handle=h, content=src['content'], id=self.nid, name=src['name']))

    def drop(self, tid, i):
        ex = self.ex
        mine = [x for x in self.live if x['owner'] == tid]
        rec = mine[i]
        self.live.remove(rec)
        self.drop_index[len(self.log)] = i
        self.log.append((tid, 'drop', rec['name']))
        ex.models.drop_value(ex, rec['handle'])

    def box_of(self, rec):
        d = rec['handle'].f[self.H.i_data]
        if not isinstance(d, Enum) or d.variant != 'Some':
            raise Violation('live handle without buffer (data is None)')
        return d.f[0].box

    def check_state(self, final=False):
        ex = self.ex
        for r in self.live:
            b = self.box_of(r)
            if b.strong <= 0:
                raise Violation('live handle whose buffer was released')
            v = b.value
            if not (isinstance(v, VecM) and len(v.items) == 1) or not self.surely_equal(v.items[0].t, r['content']):
                raise Violation('handle exposes bytes other than the ones it was created from')
        for i in range(len(self.live)):
            for j in range(i + 1, len(self.live)):
                a, b = self.live[i], self.live[j]
                if self.box_of(a) is not self.box_of(b):
                    if not self.surely_different(a['content'], b['content']):
                        ex.assume(a['content'] == b['content'])
                        raise Violation('sharing: two live handles with equal contents use different buffers (%s, %s)' % (a['name'], b['name']))

    def table(self):
        st = getattr(self.ex.world, 'statics', {}).get('STRING_CACHE')
        if st is None:
            return None
        arc = st.v
        mx = arc.box.value
        return mx.cell.v

    def quiesce(self):
        """drop every remaining handle sequentially, then the intern table must be empty"""
        for r in list(self.live):
            self.live.remove(r)
            self.ex.models.drop_value(self.ex, r['handle'])
        t = self.table()
        if t is not None and t.entries:
            raise Violation('leak: intern table holds %d entr%s after every handle was dropped' % (len(t.entries), 'y' if len(t.entries) == 1 else 'ies'))


def thread_body(run, tid, nops, sched):
    def body(t):
        ex = run.ex
        for k in range(nops):
            mine = [x for x in run.live if x['owner'] == tid]
            opts = [('new', None)]
            for i in range(len(mine)):
                opts.append(('clone', i))
                opts.append(('drop', i))
            if run.cfg.get('allow_stop', True):
                opts.append(('stop', None))
            c = ex.nondet(len(opts), 'program')
            op, i = opts[c]
            if op == 'stop':
                break
            if op == 'new':
                run.new(tid, 'c%d_%d' % (tid, k))
            elif op == 'clone':
                run.clone(tid, i)
            else:
                run.drop(tid, i)
            run.check_state()
    return body


def fixed_body(run, tid, ops):
    def body(t):
        for k, op in enumerate(ops):
            if op[0] == 'new':
                run.new(tid, op[1])
            elif op[0] == 'clone':
                run.clone(tid, op[1])
            else:
                run.drop(tid, op[1])
            run.check_state()
    return body


def explore(prog, cfg, stats=None, max_runs=200000, budget_s=600, initial=None, frontier=None):
    """cfg: threads, ops, pre (number of pre-existing handles given to thread 0), gran, pb, programs(optional fixed)"""
    H = SSHarness(prog)
    stats = stats or Stats()
    res = dict(runs=0, violations=[], unsupported=None, infeasible=0, max_points=0)
    work = [list(p) for p in initial] if initial is not None else [[]]
    t0 = time.time()
    seen_labels = set()
    M = make_models(H)
    while work:
        if frontier is not None and len(work) >= frontier:
            res['frontier'] = work
            return res
        dec = work.pop(0) if frontier is not None else work.pop()
        ex = Exec(prog, M, dec, stats)
        ex.world = World()
        run = Run(H, ex, cfg)
        sched = T.Sched(ex, cfg.get('gran', 'coarse'), cfg.get('pb'))
        try:
            # sequential prefix: pre-existing handles (owned by thread 0), created before the threads start
            for i in range(cfg.get('pre', 0)):
                run.new(0, 'p%d' % i)
            run.setup_len = len(run.log)
            ex.world.sched = sched
            if cfg.get('programs'):
                for tid, ops in enumerate(cfg['programs']):
                    sched.spawn(fixed_body(run, tid, ops))
            else:
                for tid in range(cfg['threads']):
                    sched.spawn(thread_body(run, tid, cfg['ops'], sched))
            sched.run()
            ex.world.sched = None
            run.check_state()
            run.quiesce()
            res['runs'] += 1
            stats.paths += 1
        except Infeasible:
            res['infeasible'] += 1
        except (Violation, PanicPath) as v:
            res['runs'] += 1
            label = v.label if isinstance(v, Violation) else 'panic: %s' % v.msg
            key = label.split(':')[0]
            if key not in seen_labels:
                seen_labels.add(key)
                model = None
                try:
                    if ex.solver.check() == z3.sat:
                        m = ex.solver.model()
                        model = {d.name(): str(m[d]) for d in m.decls()}
                except Exception:
                    pass
                rec = dict(label=label, trace=list(sched.trace), log=list(run.log), decisions=list(ex.taken), model=model)
                if cfg.get('replay', True):
                    try:
                        ok_, path_, detail_ = confirm(run, ex, sched, label)
                    except Exception as e_:
                        ok_, path_, detail_ = False, None, 'replay machinery failed: %r' % (e_,)
                    rec.update(confirmed=ok_, replay=path_, replay_detail=detail_)
                res['violations'].append(rec)
            if len(res['violations']) >= cfg.get('max_viol', 2):
                break
        except (Unsupported, BoundExceeded) as u:
            res['unsupported'] = '%s: %s' % (type(u).__name__, u)
            break
        res["max_points"] = max(res["max_points"], len(sched.trace))
        if cfg.get("debug"): print(len(ex.taken), ex.taken, sched.trace)
        work.extend(ex.pending)
        if res['runs'] + res['infeasible'] > max_runs:
            res['unsupported'] = 'run bound %d exceeded' % max_runs
            break
        if time.time() - t0 > budget_s:
            res['unsupported'] = 'time budget %ds exceeded after %d runs' % (budget_s, res['runs'])
            break
    return res


# ----------------------------------------------------------------------------- native replay
def confirm(run, ex, sched, label, prop='C18'):
    """Force the schedule on real threads (tools/replayer sstring, through the cfg(rbx_dom_verif) yield hooks) and compare
    what is observable: buffer identity per live handle, bytes exposed, intern table size at quiescence."""
    import json, os, hashlib
    from .. import common as C, gen
    if ex.solver.check() != z3.sat:
        return False, None, 'path condition unsatisfiable at report time'
    m = ex.solver.model()

    def content(term):
        return 'content%s' % m.eval(term, model_completion=True)
    nthreads = len(sched.threads)
    programs = [[] for _ in range(nthreads)]
    setup = []
    # replay the op log: setup ops are the ones logged before the threads started (run.setup_len)
    live_idx = [[] for _ in range(nthreads)]
    for k, (tid, op, name) in enumerate(run.log):
        if k < run.setup_len:
            setup.append(content(z3.Int(name)))
            live_idx[0].append(name)
            continue
        if op == 'new':
            programs[tid].append(['new', content(z3.Int(name))])
            live_idx[tid].append(name)
        elif op == 'clone':
            programs[tid].append(['clone', live_idx[tid].index(name)])
            live_idx[tid].append(name)
        else:
            i = run.drop_index[k]
            programs[tid].append(['drop', i])
            live_idx[tid].pop(i)
    grants = [tid for tid, what in sched.trace if what in ('Arc::into_inner', 'Mutex::lock', 'Arc::clone')]
    scn = dict(setup=setup, programs=programs, grants=grants)
    os.makedirs(C.REPLAYS, exist_ok=True)
    h = hashlib.sha256(json.dumps(scn, sort_keys=True).encode()).hexdigest()[:10]
    path = os.path.join(C.REPLAYS, '%s_sstring_%s.json' % (prop, h))
    with open(path, 'w') as f:
        json.dump(scn, f)
    rc, out, dt = C.run([gen.tool('replayer'), 'sstring', path], timeout=60)
    try:
        nat = json.loads(out.strip().split('\n')[-1])
    except ValueError:
        nat = {'error': out[-300:]}
    # prediction
    pred_live = []
    for r in run.live:
        d = r['handle'].f[run.H.i_data]
        pred_live.append(dict(thread=r['owner'], content=content(r['content']), box=d.f[0].box.id if isinstance(d, Enum) and d.variant == 'Some' else None))
    ok, detail = False, ''
    if 'error' in nat or rc != 0:
        detail = 'native run failed: %s' % (nat.get('error') or out[-200:])
    elif label.startswith('panic') or label.startswith('deadlock'):
        ok = bool(nat.get('panics'))
        detail = 'native: %s' % (nat.get('panics') or 'no panic')
    elif label.startswith('leak'):
        ok = nat.get('all_done') and (nat.get('table_len_after_dropping_all') or 0) > 0
        detail = 'native intern table holds %s entries after every handle was dropped' % nat.get('table_len_after_dropping_all')
    elif label.startswith('sharing'):
        # two live handles with equal content and different buffers
        seen = {}
        for l in nat['live']:
            seen.setdefault(l['content'], set()).add(l['ptr'])
        ok = any(len(v) > 1 for v in seen.values())
        detail = 'native: %s' % ({k: len(v) for k, v in seen.items()},)
    elif label.startswith('handle exposes'):
        ok = any(not l['data_ok'] for l in nat['live'])
        detail = 'native data() mismatch' if ok else 'native data() fine'
    else:
        detail = 'no native oracle for this label'
    with open(path, 'w') as f:
        json.dump(dict(scn, property=prop, label=label, predicted_live=pred_live, native=nat, confirmed=bool(ok), detail=detail,
                       how='tools/replayer sstring <this file> (built with --cfg rbx_dom_verif)'), f, indent=1)
    return bool(ok), path, detail
