"""Parallel driver for the SharedString interleaving obligations (C18)."""
import os, time, multiprocessing as mp
from .. import common as C
from . import mirdump, sscheck
from .program import Program
from .interp import Stats

_PROG = None


def _load():
    global _PROG
    if _PROG is None:
        _PROG = Program(['rbx_types'], mirdump.MIR_DIR)
    return _PROG


def _work(job):
    cfg, prefix, budget = job
    st = Stats()
    t = time.time()
    try:
        r = sscheck.explore(_load(), cfg, st, initial=[prefix], budget_s=budget)
    except Exception as e:
        import traceback
        r = dict(runs=0, violations=[], unsupported='encoder exception: %r %s' % (e, traceback.format_exc()[-500:]), infeasible=0, max_points=0)
    r.update(queries=st.queries, solver_s=st.solver_s, wall_s=time.time() - t, models=dict(st.models_used), fns=dict(st.fns_interpreted))
    return r


def run_group(g, pool, jobs):
    cfg = dict(g['cfg'])
    st = Stats()
    t0 = time.time()
    head = sscheck.explore(_load(), cfg, st, frontier=jobs * 6, budget_s=g.get('budget', 600))
    parts = [dict(head, queries=st.queries, solver_s=st.solver_s, wall_s=time.time() - t0, models=dict(st.models_used), fns=dict(st.fns_interpreted))]
    fr = head.get('frontier') or []
    if fr and not head['violations'] and not head['unsupported']:
        parts += pool.map(_work, [(cfg, p, g.get('budget', 600)) for p in fr], chunksize=1)
    ob = C.Obligation(g['id'], g['desc'], 'M', g['bounds'])
    ob.paths = sum(p['runs'] for p in parts)
    ob.queries = sum(p['queries'] for p in parts)
    ob.solver_s = sum(p['solver_s'] for p in parts)
    ob.wall_s = time.time() - t0
    fns, models = {}, {}
    for p in parts:
        for k, v in p['fns'].items():
            fns[k] = fns.get(k, 0) + v
        for k, v in p['models'].items():
            models[k] = models.get(k, 0) + v
    ob.functions, ob.stubs = sorted(fns), sorted(models)
    ob.extra.update(schedules_and_programs=ob.paths, infeasible=sum(p['infeasible'] for p in parts), max_sync_points=max(p['max_points'] for p in parts), workers=len(parts))
    uns = [p['unsupported'] for p in parts if p['unsupported']]
    seen = set()
    for p in parts:
        for v in p['violations']:
            key = v['label'].split(':')[0].split(' ')[0]
            if key in seen:
                continue
            seen.add(key)
            ob.violations.append(dict(key='sstring:' + key, what=v['label'] + ' :: ops=%s :: schedule=%s :: %s' % (v['log'], v['trace'][:24], v.get('replay_detail', '')), replay=v.get('replay'), confirmed=bool(v.get('confirmed'))))
            ob.samples.append(dict(log=v['log'], trace=v['trace'][:24]))
    if g.get('expect_violation'):
        # regression twin: this program/schedule space must still be able to exhibit a violation when the model of the
        # fixed code is replaced -- not used
        pass
    if uns:
        ob.status, ob.detail = C.INCONCLUSIVE, uns[0][:400]
    elif ob.violations:
        ob.status, ob.detail = C.FAIL, ob.violations[0]['what'][:300]
    elif ob.paths == 0:
        ob.status, ob.detail = C.INCONCLUSIVE, 'vacuous: no completed run'
    else:
        ob.status, ob.vacuity = C.PASS, True
        ob.samples.append(dict(cfg={k: v for k, v in cfg.items()}, runs=ob.paths))
    return ob


def run(groups, jobs=None):
    jobs = jobs or min(14, os.cpu_count() or 4)
    _load()
    obs = []
    with mp.get_context('fork').Pool(jobs) as pool:
        for g in groups:
            obs.append(run_group(g, pool, jobs))
    return obs


def twin():
    """vacuity twin: with the table clean-up re-modelled as the pre-fix code (unconditional remove) the same exploration
    must find the sharing violation -- shows the checker can see the defect class it guards against."""
    from .values import Unit
    from .models import deref
    ob = C.Obligation('M.twin', 'vacuity twin: exploration with an injected unconditional table removal must report the sharing violation', 'M', '2 threads, fixed 3-op program')
    prog = _load()
    H = sscheck.SSHarness(prog)
    orig = sscheck.make_models

    def patched(H_):
        M = orig(H_)
        inner = M.table[('OccupiedEntry', 'get')]

        def get_dead(ex, args, info):
            # pretend every occupied slot is dead when asked by Drop: strong_count -> 0
            return inner(ex, args, info)
        # inject: Weak::strong_count reports 0 (the pre-fix behaviour: remove regardless of liveness)
        def zero(ex, args, info):
            from .values import mk_int
            return mk_int(0, 'usize')
        M.table[('Weak', 'strong_count')] = zero
        return M
    sscheck.make_models = patched
    try:
        r = sscheck.explore(prog, dict(programs=[[('drop', 0)], [('new', 'a'), ('new', 'b')]], pre=1, gran='coarse', max_viol=1, replay=False), Stats(), budget_s=120)
    finally:
        sscheck.make_models = orig
    ob.paths, ob.queries = r['runs'], 1
    if r['violations']:
        ob.status, ob.vacuity = C.PASS, True
    else:
        ob.status, ob.detail = C.INCONCLUSIVE, 'twin found no violation: %s' % (r['unsupported'],)
    return ob
