"""Interleaving exploration over interpreted MIR: simulated threads (python threads passing a baton), scheduling points
at every synchronisation call, schedules chosen through Exec.nondet so the stateless DFS enumerates them together
with the data forks.  Models for Arc / Weak / Mutex / atomics live here."""
import threading
import z3
from .values import *
from .models import deref


class AbortThread(BaseException):
    pass


class ArcBox:
    __slots__ = ('strong', 'value', 'id', 'tag')
    n = 0

    def __init__(self, value, tag=None):
        ArcBox.n += 1
        self.strong, self.value, self.id, self.tag = 1, value, ArcBox.n, tag


class ArcV:
    __slots__ = ('box',)

    def __init__(self, box):
        self.box = box

    def __repr__(self):
        return 'Arc#%d(strong=%d)' % (self.box.id, self.box.strong)


class WeakV:
    __slots__ = ('box',)

    def __init__(self, box):
        self.box = box

    def __repr__(self):
        return 'Weak#%d' % self.box.id


class MutexV:
    __slots__ = ('owner', 'cell', 'poisoned')

    def __init__(self, inner):
        self.owner, self.cell, self.poisoned = None, Cell(inner), False


class GuardV:
    __slots__ = ('mutex',)

    def __init__(self, mutex):
        self.mutex = mutex


class SimThread:
    def __init__(self, tid, body):
        self.tid, self.body = tid, body
        self.state = 'ready'          # ready | blocked | done
        self.go = threading.Event()
        self.exc = None
        self.th = None
        self.holding = 0              # mutexes held (critical section depth)


class Sched:
    """granularity 'fine': every synchronisation call is a scheduling point (preemption bounded);
       'coarse': critical sections are atomic (no switch while a mutex is held)."""

    def __init__(self, ex, granularity='coarse', preempt_bound=None):
        self.ex, self.gran, self.pb = ex, granularity, preempt_bound
        self.threads = []
        self.cur = None
        self.preemptions = 0
        self.trace = []
        self.main_evt = threading.Event()
        self.abort = False
        self.on_step = None
        self.steps = 0

    def spawn(self, body):
        t = SimThread(len(self.threads), body)
        self.threads.append(t)
        return t

    # ---- called from inside simulated threads
    def point(self, what, blocking_on=None):
        """scheduling point before a visible operation `what`.  blocking_on: MutexV the op needs free."""
        t = self.cur
        if t is None:
            return              # sequential code outside run()
        resumed = False
        while True:
            if self.abort:
                raise AbortThread()
            blocked = blocking_on is not None and blocking_on.owner is not None
            if resumed and not blocked:
                # the scheduling decision for this point was taken when the thread was switched away
                self.trace.append((t.tid, what))
                return
            if self.gran == 'coarse' and t.holding > 0 and not blocked:
                return
            enabled = [x for x in self.threads if x.state != 'done' and x is not t and not (x.state == 'blocked' and x.wait_on.owner is not None)]
            options = []
            if not blocked:
                options.append(t)
            can_preempt = self.pb is None or self.preemptions < self.pb or blocked
            if can_preempt:
                options.extend(enabled)
            if not options:
                raise Violation('deadlock: thread %d waits for a mutex nobody can release (%s)' % (t.tid, what))
            k = self.ex.nondet(len(options), 'schedule') if len(options) > 1 else 0
            nxt = options[k]
            if nxt is t:
                self.trace.append((t.tid, what))
                return
            if not blocked:
                self.preemptions += 1
            if blocked:
                t.state, t.wait_on = 'blocked', blocking_on
            self.switch_to(nxt, t)
            t.state = 'ready'
            resumed = True

    def switch_to(self, nxt, frm):
        self.cur = nxt
        frm.go.clear()
        nxt.go.set()
        frm.go.wait()
        if self.abort:
            raise AbortThread()

    def step_done(self):
        self.steps += 1
        if self.on_step:
            self.on_step()

    # ---- controller
    def run(self):
        def wrap(t):
            t.go.wait()
            try:
                if not self.abort:
                    t.body(t)
            except AbortThread:
                pass
            except BaseException as e:      # Violation, PanicPath, Unsupported, Infeasible ...
                t.exc = e
                self.abort = True
            t.state = 'done'
            # hand the baton on
            if self.abort:
                for x in self.threads:
                    x.go.set()
                self.main_evt.set()
                return
            rest = [x for x in self.threads if x.state != 'done' and not (x.state == 'blocked' and x.wait_on.owner is not None)]
            if not rest:
                stuck = [x for x in self.threads if x.state != 'done']
                if stuck:
                    t.exc = Violation('deadlock: threads %s blocked forever' % [x.tid for x in stuck])
                    self.abort = True
                    for x in self.threads:
                        x.go.set()
                self.main_evt.set()
                return
            try:
                k = self.ex.nondet(len(rest), 'schedule') if len(rest) > 1 else 0
            except BaseException as e:
                t.exc = e
                self.abort = True
                for x in self.threads:
                    x.go.set()
                self.main_evt.set()
                return
            self.cur = rest[k]
            rest[k].go.set()
        for t in self.threads:
            t.wait_on = None
            t.th = threading.Thread(target=wrap, args=(t,), daemon=True)
            t.th.start()
        first = self.ex.nondet(len(self.threads), 'schedule') if len(self.threads) > 1 else 0
        self.cur = self.threads[first]
        self.threads[first].go.set()
        self.main_evt.wait()
        for t in self.threads:
            t.th.join(timeout=5)
        self.cur = None
        for t in self.threads:
            if t.exc is not None:
                raise t.exc


def register(M, get_sched):
    """Arc / Weak / Mutex models. get_sched(ex) -> Sched or None."""

    def pt(ex, what, blocking_on=None):
        s = get_sched(ex)
        if s is not None:
            s.point(what, blocking_on)

    @M.path('Arc', 'new')
    def _arc_new(ex, args, info):
        return ArcV(ArcBox(args[0]))

    @M.rx(r'^<Arc<.*> as From<.*>>::from$', 'Arc::from')
    def _arc_from(ex, m, args, callee, dest):
        ex.world.buffers_created = getattr(ex.world, 'buffers_created', 0) + 1
        return ArcV(ArcBox(args[0]))

    @M.trait('Deref', 'deref', self_heads=('Arc',))
    def _arc_deref(ex, args, info):
        a = deref(args[0])
        if a.box.strong <= 0:
            raise Violation('use of an Arc whose buffer was already released')
        return Ptr(Cell(a.box.value)) if not isinstance(a.box.value, (MutexV,)) else Ptr(Cell(a.box.value))

    @M.trait('Clone', 'clone', self_heads=('Arc',))
    def _arc_clone(ex, args, info):
        a = deref(args[0])
        pt(ex, 'Arc::clone')
        a.box.strong += 1
        return ArcV(a.box)

    @M.path('Arc', 'downgrade')
    def _arc_downgrade(ex, args, info):
        return WeakV(deref(args[0]).box)

    @M.path('Arc', 'into_inner')
    def _arc_into_inner(ex, args, info):
        a = args[0]
        pt(ex, 'Arc::into_inner')
        a.box.strong -= 1
        if a.box.strong == 0:
            return Some(a.box.value)
        return NoneV()

    @M.path('Arc', 'strong_count')
    def _arc_strong(ex, args, info):
        pt(ex, 'Arc::strong_count')
        return mk_int(deref(args[0]).box.strong, 'usize')

    @M.path('Arc', 'ptr_eq')
    def _arc_ptr_eq(ex, args, info):
        return mk_bool(deref(args[0]).box is deref(args[1]).box)

    @M.path('Weak', 'upgrade')
    def _weak_upgrade(ex, args, info):
        w = deref(args[0])
        pt(ex, 'Weak::upgrade')
        if w.box.strong > 0:
            w.box.strong += 1
            return Some(ArcV(w.box))
        return NoneV()

    @M.path('Weak', 'strong_count')
    def _weak_strong(ex, args, info):
        pt(ex, 'Weak::strong_count')
        return mk_int(deref(args[0]).box.strong, 'usize')

    @M.path('Weak', 'new')
    def _weak_new(ex, args, info):
        b = ArcBox(None)
        b.strong = 0
        return WeakV(b)

    @M.path('Mutex', 'new')
    def _mutex_new(ex, args, info):
        return MutexV(args[0])

    @M.path('Mutex', ['lock', 'try_lock'])
    def _mutex_lock(ex, args, info):
        mx = deref(args[0])
        s = get_sched(ex)
        if info.method == 'try_lock':
            pt(ex, 'Mutex::try_lock')
            if mx.owner is not None:
                return Err(Opaque('WouldBlock'))
        else:
            if s is not None and s.cur is not None and mx.owner is s.cur.tid:
                raise Violation('deadlock: thread %d locks a mutex it already holds' % s.cur.tid)
            pt(ex, 'Mutex::lock', blocking_on=mx)
        mx.owner = s.cur.tid if (s is not None and s.cur is not None) else 'main'
        if s is not None and s.cur is not None:
            s.cur.holding += 1
        if mx.poisoned:
            return Err(Opaque('PoisonError', GuardV(mx)))
        return Ok(GuardV(mx))

    @M.trait('Deref', 'deref', self_heads=('MutexGuard',))
    @M.trait('DerefMut', 'deref_mut', self_heads=('MutexGuard',))
    def _guard_deref(ex, args, info):
        g = deref(args[0])
        return Ptr(g.mutex.cell)

    def drop_guard(ex, g):
        s = get_sched(ex)
        g.mutex.owner = None
        if s is not None and s.cur is not None:
            s.cur.holding -= 1
            pt(ex, 'MutexGuard::drop')

    def drop_arc(ex, a):
        pt(ex, 'Arc::drop')
        a.box.strong -= 1
        if a.box.strong == 0:
            ex.models.drop_value(ex, a.box.value)

    M.drop_handlers['GuardV'] = drop_guard
    M.drop_handlers['ArcV'] = drop_arc
    M.clone_hooks = getattr(M, 'clone_hooks', {})

    def clone_arc(ex, a):
        pt(ex, 'Arc::clone')
        a.box.strong += 1
        return ArcV(a.box)
    M.clone_hooks['ArcV'] = clone_arc
    M.clone_hooks['WeakV'] = lambda ex, w: WeakV(w.box)

    # atomics
    @M.rx(r'^(?:std::sync::atomic::|core::sync::atomic::)?Atomic(U32|U64|Usize|I32|I64|Bool|::<\w+>)::(fetch_add|fetch_sub|load|store|new|swap|compare_exchange)$', 'atomics')
    def _atomic(ex, m, args, callee, dest):
        what = m.group(2)
        if what == 'new':
            return Struct([args[0]], 'Atomic')
        a = deref(args[0])
        pt(ex, 'atomic ' + what)
        old = a.f[0]
        if what == 'load':
            return old
        if what == 'store':
            a.f[0] = args[1]
            return Unit()
        if what == 'swap':
            a.f[0] = args[1]
            return old
        if what in ('fetch_add', 'fetch_sub'):
            a.f[0] = ex.binop('Add' if what == 'fetch_add' else 'Sub', old, args[1])
            return old
        raise Unsupported(callee)
