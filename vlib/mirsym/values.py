"""Value domain of the MIR symbolic executor."""
import z3, struct

INT_W = {'u8': 8, 'i8': 8, 'u16': 16, 'i16': 16, 'u32': 32, 'i32': 32, 'u64': 64, 'i64': 64, 'u128': 128, 'i128': 128,
         'usize': 64, 'isize': 64, 'char': 32, 'f32': 32, 'f64': 64, 'Ref': 128}
SIGNED = {'i8', 'i16', 'i32', 'i64', 'i128', 'isize'}


class Unsupported(Exception):
    """MIR construct or callee outside the encoder: the run is inconclusive (exit 2), never a pass."""


class Infeasible(Exception):
    pass


class PanicPath(Exception):
    def __init__(self, msg, site=None):
        Exception.__init__(self, msg)
        self.msg, self.site = msg, site


class Violation(Exception):
    def __init__(self, label, model=None, info=None):
        Exception.__init__(self, label)
        self.label, self.model, self.info = label, model, info


class BoundExceeded(Exception):
    pass


class Sc:
    """Scalar: z3 term + MIR type name.  ints/floats are bit-vectors (floats = IEEE bit pattern), bool is a z3 Bool."""
    __slots__ = ('t', 'ty')

    def __init__(self, t, ty):
        self.t, self.ty = t, ty

    def __repr__(self):
        return '%s:%s' % (self.t, self.ty)

    def concrete(self):
        if self.ty == 'bool':
            if z3.is_true(self.t):
                return True
            if z3.is_false(self.t):
                return False
            return None
        if z3.is_bv_value(self.t) or z3.is_int_value(self.t):
            return self.t.as_long()
        return None

    def signed_concrete(self):
        v = self.concrete()
        if v is None or self.ty == 'bool':
            return v
        w = INT_W[self.ty]
        if self.ty in SIGNED and v >= 1 << (w - 1):
            v -= 1 << w
        return v


def mk_int(v, ty):
    w = INT_W[ty]
    return Sc(z3.BitVecVal(v & ((1 << w) - 1), w), ty)


def mk_bool(b):
    return Sc(z3.BoolVal(bool(b)), 'bool')


def sym_int(name, ty):
    return Sc(z3.BitVec(name, INT_W[ty]), ty)


def sym_bool(name):
    return Sc(z3.Bool(name), 'bool')


def f32_bits(x):
    return struct.unpack('<I', struct.pack('<f', x))[0]


def f64_bits(x):
    return struct.unpack('<Q', struct.pack('<d', x))[0]


class Struct:
    __slots__ = ('f', 'name')

    def __init__(self, f, name=None):
        self.f, self.name = list(f), name

    def __repr__(self):
        return '%s%r' % (self.name or '', tuple(self.f))


class Enum:
    """variant is a concrete name, unless lazy (variant None, alts = [(z3 cond, variant, fields)]) -- forced on inspection."""
    __slots__ = ('ename', 'variant', 'f', 'alts')

    def __init__(self, ename, variant, f=(), alts=None):
        self.ename, self.variant, self.f, self.alts = ename, variant, list(f), alts

    def __repr__(self):
        if self.variant is None:
            return '%s::<lazy %d>' % (self.ename, len(self.alts))
        return '%s::%s%r' % (self.ename, self.variant, tuple(self.f))


def Some(v):
    return Enum('Option', 'Some', [v])


def NoneV():
    return Enum('Option', 'None')


def Ok(v):
    return Enum('Result', 'Ok', [v])


def Err(v):
    return Enum('Result', 'Err', [v])


def Unit():
    return Struct([], None)


class ArrayV:
    __slots__ = ('items',)

    def __init__(self, items):
        self.items = list(items)

    def __repr__(self):
        return 'Arr%r' % (self.items,)


class Cell:
    __slots__ = ('v',)

    def __init__(self, v=None):
        self.v = v


class Ptr:
    """reference / raw pointer / Box: a cell plus a projection path (ints index Struct.f / Enum.f / .items)."""
    __slots__ = ('cell', 'path', 'boxed')

    def __init__(self, cell, path=(), boxed=False):
        self.cell, self.path, self.boxed = cell, tuple(path), boxed

    def __repr__(self):
        return 'Ptr(%x%r)' % (id(self.cell) & 0xffff, self.path)

    def load(self):
        v = self.cell.v
        for k in self.path:
            v = child(v, k)
        return v

    def store(self, x):
        if not self.path:
            self.cell.v = x
            return
        v = self.cell.v
        for k in self.path[:-1]:
            v = child(v, k)
        set_child(v, self.path[-1], x)

    def field(self, k):
        return Ptr(self.cell, self.path + (k,))

    def same(self, o):
        return self.cell is o.cell and self.path == o.path


def child(v, k):
    if isinstance(v, (Struct, Enum, Closure)):
        return v.f[k]
    if isinstance(v, (ArrayV, VecM)):
        return v.items[k]
    if isinstance(v, StrV) and v.data is not None:
        return v.data[k]
    raise Unsupported('projection %r into %r' % (k, type(v).__name__))


def set_child(v, k, x):
    if isinstance(v, (Struct, Enum, Closure)):
        v.f[k] = x
    elif isinstance(v, (ArrayV, VecM)):
        v.items[k] = x
    elif isinstance(v, StrV) and v.data is not None:
        v.data[k] = x
    else:
        raise Unsupported('store projection %r into %r' % (k, type(v).__name__))


class SliceRef:
    """&[T] / &mut [T] / &str view: pointer to a container with .items (ArrayV / VecM) or StrV.data, start, len."""
    __slots__ = ('ptr', 'start', 'n')

    def __init__(self, ptr, start, n):
        self.ptr, self.start, self.n = ptr, start, n

    def container(self):
        c = self.ptr.load()
        return c

    def items(self):
        c = self.container()
        lst = c.data if isinstance(c, StrV) else c.items
        return lst[self.start:self.start + self.n]

    def get(self, i):
        c = self.container()
        lst = c.data if isinstance(c, StrV) else c.items
        return lst[self.start + i]

    def set(self, i, x):
        c = self.container()
        lst = c.data if isinstance(c, StrV) else c.items
        lst[self.start + i] = x

    def elem_ptr(self, i):
        return Ptr(self.ptr.cell, self.ptr.path + (self.start + i,))

    def __repr__(self):
        return 'Slice(%r,%d,%d)' % (self.ptr, self.start, self.n)


class StrV:
    """String / str / Vec<u8>-as-text.  data: list of Sc u8 with concrete length (byte-level checks), or None with a
    symbolic identity `sid` (z3 Int) for opaque strings (names, class names) where only equality matters."""
    __slots__ = ('data', 'sid')
    _intern = {}

    def __init__(self, data=None, sid=None):
        self.data, self.sid = data, sid

    @staticmethod
    def lit(b):
        if isinstance(b, str):
            b = b.encode()
        return StrV([mk_int(x, 'u8') for x in b], StrV.intern_id(b))

    @staticmethod
    def intern_id(b):
        k = StrV._intern.get(b)
        if k is None:
            k = len(StrV._intern) + 1
            StrV._intern[b] = k
        return z3.IntVal(k)

    def concrete_bytes(self):
        if self.data is None:
            return None
        out = []
        for x in self.data:
            c = x.concrete()
            if c is None:
                return None
            out.append(c)
        return bytes(out)

    def __repr__(self):
        b = self.concrete_bytes()
        return 'Str(%r)' % (b if b is not None else (self.sid if self.sid is not None else self.data))


class VecM:
    """Vec / VecDeque / Box<[T]>: list with concrete length per path."""
    __slots__ = ('items', 'kind')

    def __init__(self, items=(), kind='Vec'):
        self.items, self.kind = list(items), kind

    def __repr__(self):
        return '%s%r' % (self.kind, self.items)


class MapM:
    """HashMap / AHashMap / UstrMap / BTreeMap as association list of [key, Cell(value)]; `ordered` = BTreeMap."""
    __slots__ = ('entries', 'ordered', 'kind')

    def __init__(self, entries=(), ordered=False, kind='HashMap'):
        self.entries, self.ordered, self.kind = [list(e) for e in entries], ordered, kind

    def __repr__(self):
        return '%s{%s}' % (self.kind, ', '.join('%r: %r' % (k, c.v) for k, c in self.entries))


class SetM:
    """Set as a list of members, each with an optional membership guard (z3 Bool; None = unconditionally present).
    Guards let insert/remove/contains with symbolic keys stay merged (no fork per element)."""
    __slots__ = ('items', 'guards', 'ordered', 'kind')

    def __init__(self, items=(), ordered=False, kind='HashSet', guards=None):
        self.items, self.ordered, self.kind = list(items), ordered, kind
        self.guards = list(guards) if guards is not None else [None] * len(self.items)

    def __repr__(self):
        return '%s%r' % (self.kind, self.items)


class Closure:
    __slots__ = ('loc', 'f')

    def __init__(self, loc, f):
        self.loc, self.f = loc, list(f)

    def __repr__(self):
        return 'Closure@%s' % (self.loc,)


class FnItem:
    __slots__ = ('name',)

    def __init__(self, name):
        self.name = name

    def __repr__(self):
        return 'FnItem(%s)' % self.name


class IterM:
    """Iterator model: `items` is a list of already-produced element values (or thunks); adapters wrap `nextf`."""
    __slots__ = ('nextf', 'kind', 'back', 'src', 'remaining')

    def __init__(self, nextf, kind='iter', back=None, src=None, remaining=None):
        self.nextf, self.kind, self.back, self.src, self.remaining = nextf, kind, back, src, remaining

    def exact_len(self):
        """number of elements left, for length-preserving adapter chains over a finite base"""
        if self.remaining is not None:
            return self.remaining()
        if self.src is not None and self.kind in ('map', 'enumerate', 'copied', 'rev'):
            return self.src.exact_len()
        return None


class Opaque:
    """A value the models never look into (io::Error, fmt::Arguments, ...)."""
    __slots__ = ('what', 'payload')

    def __init__(self, what, payload=None):
        self.what, self.payload = what, payload

    def __repr__(self):
        return 'Opaque(%s)' % self.what


MOVED = Opaque('moved')


def copy_val(v):
    """Bitwise copy of an inline value: aggregates are duplicated, heap objects (containers) and pointers are shared."""
    if isinstance(v, Struct):
        return Struct([copy_val(x) for x in v.f], v.name)
    if isinstance(v, Enum):
        return Enum(v.ename, v.variant, [copy_val(x) for x in v.f], v.alts)
    if isinstance(v, ArrayV):
        return ArrayV([copy_val(x) for x in v.items])
    return v


def clone_val(v):
    """Deep clone (Clone::clone of owned data): containers are duplicated too."""
    if isinstance(v, Struct):
        return Struct([clone_val(x) for x in v.f], v.name)
    if isinstance(v, Enum):
        return Enum(v.ename, v.variant, [clone_val(x) for x in v.f], v.alts)
    if isinstance(v, ArrayV):
        return ArrayV([clone_val(x) for x in v.items])
    if isinstance(v, VecM):
        return VecM([clone_val(x) for x in v.items], v.kind)
    if isinstance(v, MapM):
        return MapM([[clone_val(k), Cell(clone_val(c.v))] for k, c in v.entries], v.ordered, v.kind)
    if isinstance(v, SetM):
        return SetM([clone_val(x) for x in v.items], v.ordered, v.kind, v.guards)
    if isinstance(v, StrV):
        return StrV(list(v.data) if v.data is not None else None, v.sid)
    return v
