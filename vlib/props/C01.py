"""C01 binary round trip — K obligations (scalar / array wire codecs, rotation ids, colour quantisation)."""
from .. import common as C, gen, kani as K

CORE = 'rbx_binary/src/core.rs'


def harnesses(tier):
    H = K.Harness
    hs = [
        H('rbx_binary', 'k1_zigzag_i32', 'K1.i32', 'zigzag i32: bijection both ways and = docs formula', 'all 2^32 values', functions=['core::transform_i32', 'core::untransform_i32']),
        H('rbx_binary', 'k1_zigzag_i64', 'K1.i64', 'zigzag i64: bijection both ways and = docs formula', 'all 2^64 values', functions=['core::transform_i64', 'core::untransform_i64']),
        H('rbx_binary', 'k2_i32_array_n2', 'K2.i32.n2', 'interleaved i32 array: read(write(xs)) = xs, layout out[i+N*j]', 'N=2, all bit patterns, unwind 34', functions=['RbxWriteExt::write_interleaved_i32_array', 'RbxReadExt::read_interleaved_i32_array', 'write/read_interleaved_bytes']),
        H('rbx_binary', 'k2_u32_array_n2', 'K2.u32.n2', 'interleaved u32 array round trip + layout', 'N=2', functions=['write/read_interleaved_u32_array']),
        H('rbx_binary', 'k2_f32_array_n2', 'K2.f32.n2', 'interleaved f32 array (bits; sign rotated to LSB) round trip + layout', 'N=2, all bit patterns incl. NaN payloads', functions=['write/read_interleaved_f32_array']),
        H('rbx_binary', 'k2_i64_array_n2', 'K2.i64.n2', 'interleaved i64 array round trip + layout', 'N=2', timeout=900, functions=['write/read_interleaved_i64_array']),
        H('rbx_binary', 'k3_referent_array_n2', 'K3.n2', 'referent array: delta + zigzag + interleave round trip and layout', 'N=2, -1 <= r < 2^30', functions=['write_referent_array', 'read_referent_array']),
        H('rbx_binary', 'k6_bytes16_n1', 'K6.n1', '16-byte column codec (UniqueId) round trip + layout', 'N=1', functions=['write/read_interleaved_bytes::<16>']),
        H('rbx_types', 'k4_rotation_id_roundtrip', 'K4.ids', 'from_basic_rotation_id(id)=Ok(m) => m.to_basic_rotation_id()=Some(id)', 'all 256 ids, unwind 3 (Error drop glue)', functions=['Matrix3::from_basic_rotation_id', 'Matrix3::to_basic_rotation_id', 'Vector3::to_normal_id', 'approx_unit_or_zero']),
        H('rbx_types', 'k4_rotation_table_proper', 'K4.proper', 'every basic rotation id maps to a proper rotation of the cube: entries in {-1,0,1}, orthonormal rows, determinant +1 (oracle independent of the table)', 'all 256 ids', timeout=900, functions=['Matrix3::from_basic_rotation_id']),
        H('rbx_types', 'k4_rotation_snap_within_epsilon', 'K4.snap', 'to_basic_rotation_id(m)=Some(id) only if every entry within f32::EPSILON of that rotation', '9 symbolic f32 (all bit patterns)', timeout=1500,
          functions=['Matrix3::to_basic_rotation_id', 'approx_unit_or_zero'], finding_key='rotation_snap_beyond_epsilon', finding_what='a matrix farther than epsilon from a basic rotation is encoded as that rotation id'),
        H('rbx_types', 'k4_normal_id_within_epsilon', 'K4.normal', 'Vector3::to_normal_id=Some(id) only within epsilon of the basis vector', '3 symbolic f32', timeout=900,
          functions=['Vector3::to_normal_id', 'approx_unit_or_zero'], finding_key='rotation_snap_beyond_epsilon'),
        H('rbx_types', 'k4_normal_id_exact_basis', 'K4.basis', 'exact basis vectors map to their ids', '6 vectors', functions=['Vector3::to_normal_id']),
        H('rbx_types', 'k5_color3uint8_roundtrip', 'K5.rt', 'Color3uint8 -> Color3 -> Color3uint8 identity', 'all 2^24 colours', functions=['From<Color3uint8> for Color3', 'From<Color3> for Color3uint8']),
        H('rbx_types', 'k5_color3_quantise_channel', 'K5.mono', 'channel quantisation is clamped and monotone', 'all non-NaN f32 pairs', timeout=900, functions=['From<Color3> for Color3uint8']),
        H('rbx_binary', 'kx_vacuity_twin_binary', 'KX.twin.binary', 'vacuity twin (must fail)', '-', expect_fail=True),
        H('rbx_types', 'kx_vacuity_twin_types', 'KX.twin.types', 'vacuity twin (must fail)', '-', expect_fail=True),
    ]
    if tier == 'thorough':
        hs += [
            H('rbx_binary', 'k2_i32_array_n3', 'K2.i32.n3', 'interleaved i32 array round trip + layout', 'N=3', timeout=1800),
            H('rbx_binary', 'k2_u32_array_n3', 'K2.u32.n3', 'interleaved u32 array round trip + layout', 'N=3', timeout=1800),
            H('rbx_binary', 'k2_f32_array_n3', 'K2.f32.n3', 'interleaved f32 array round trip + layout', 'N=3', timeout=1800),
            H('rbx_binary', 'k2_i64_array_n3', 'K2.i64.n3', 'interleaved i64 array round trip + layout', 'N=3', timeout=2400),
            H('rbx_binary', 'k3_referent_array_n3', 'K3.n3', 'referent array round trip + layout', 'N=3', timeout=1800),
            H('rbx_binary', 'k6_bytes16_n2', 'K6.n2', '16-byte column codec round trip + layout', 'N=2', timeout=1800),
        ]
    return hs


ASSUMPTIONS = [
    'Kani/CBMC model of the compiled code (dev profile, Kani pinned toolchain); unwinding assertions on',
    'arrays bounded as stated per obligation; longer arrays outside the claim (codecs are uniform in N: argued, not decided)',
    'referent arrays: -1 <= r < 2^30',
    'LZ4/Zstandard bodies are outside (compression off in the M obligations; decompressors are stubs)',
    'M obligations (MIR symbolic execution of Serializer::serialize followed by Deserializer::deserialize): unknown classes with an empty database, forests of <= 5 instances, 2 instances per value column, one property besides Name; CFrame matrices away from the basic rotations; SharedString / OptionalCFrame / UniqueId / Font / Content / Tags / Attributes values, database-known property routing, default filling and Color3 -> Color3uint8 quantisation through known properties are outside',
]
TRUSTED = ['rustc (Kani toolchain)', 'Kani 0.68 / CBMC 6.11 / cadical', 'docs/binary.md formulas as transcribed in kani/rbx_binary.rs', 'rustc nightly MIR + vlib/mirsym interpreter, std contract models, z3 (M obligations)']
RULE = 'each obligation is one Kani proof harness over kani::any() inputs decided by CBMC; non-trivial = its kani::cover! witness was satisfied (or, for twins, the expected failure was reported)'


def run(tier, seed, t0, only=None):
    gen.build_tools()
    gen.write_kani_tables()
    hs = harnesses(tier)
    if only:
        hs = [h for h in hs if any(h.oid.startswith(o) for o in only)]
    obs = K.run_harnesses(hs, tier) if hs else []
    from ..mirsym import binrun, sercheck
    from . import bingroups
    binrun.refresh_mir()
    ss = bingroups.ser_groups(tier, 'C01')
    if only:
        ss = [g for g in ss if any(g['id'].startswith(o) for o in only)]
    if ss:
        obs += binrun.run(ss, ('C01',), module=sercheck)
    return C.finish('C01', tier, seed, obs, t0, ASSUMPTIONS, TRUSTED, RULE)
