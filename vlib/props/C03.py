"""C03 written binary files are well-formed — K/Z obligations (type-id table vs docs, chunk framing)."""
from .. import common as C, gen, kani as K


def harnesses(tier):
    H = K.Harness
    hs = [
        H('rbx_binary', 'k7_type_id_roundtrip', 'K7.rt', 'Type::try_from(b)=Ok(t) => t as u8 = b, and default variant type maps back to t', 'all 256 bytes', functions=['Type::try_from', 'Type::to_default_rbx_type', 'Type::from_rbx_type']),
        H('rbx_binary', 'k7_type_ids_match_docs', 'Z1.docs', 'every (Type ID, name) row of docs/binary.md "Data Types" = like-named Type variant, both directions', 'all documented rows (parsed at run time)', functions=['Type::try_from', 'Type as u8']),
        H('rbx_binary', 'k2_i32_array_n2', 'K2.i32.n2', 'interleave rule out[i+N*j] = byte j of value i (big endian, transformed)', 'N=2'),
        H('rbx_binary', 'k2_f32_array_n2', 'K2.f32.n2', 'float format: sign bit rotated to LSB, big endian, interleaved', 'N=2'),
        H('rbx_binary', 'k3_referent_array_n2', 'K3.n2', 'referent arrays are delta coded, zigzagged, interleaved', 'N=2'),
        H('rbx_binary', 'k8_chunk_dump_none_n2', 'K8.n2', 'ChunkBuilder::dump(None): name | 0 | len LE | 0 | data', 'data <= 2 bytes', timeout=1200, functions=['ChunkBuilder::dump', 'ChunkBuilder::write']),
        H('rbx_binary', 'kx_vacuity_twin_binary', 'KX.twin.binary', 'vacuity twin (must fail)', '-', expect_fail=True),
    ]
    if tier == 'thorough':
        hs.append(H('rbx_binary', 'k8_chunk_dump_none_n4', 'K8.n4', 'ChunkBuilder::dump(None) layout', 'data <= 4 bytes', timeout=2400))
    return hs


ASSUMPTIONS = [
    'compressed chunk bodies (LZ4/Zstandard FFI) are outside; only CompressionType::None framing is decided',
    'ids accepted by the crate but absent from docs/binary.md are listed in evidence (undocumented_ids) and not compared',
]
TRUSTED = ['rustc (Kani toolchain)', 'Kani 0.68 / CBMC 6.11', 'regex extraction of the "Type ID" headings from docs/binary.md']
RULE = 'one Kani harness per obligation; doc tables are re-parsed from /repo/docs on every run'


def run(tier, seed, t0, only=None):
    gen.build_tools()
    info = gen.write_kani_tables()
    hs = harnesses(tier)
    if only:
        hs = [h for h in hs if any(h.oid.startswith(o) for o in only)]
    obs = K.run_harnesses(hs, tier)
    from ..mirsym import binrun
    from . import bingroups
    from ..mirsym import sercheck
    binrun.refresh_mir()
    bs = bingroups.c03_groups(tier)
    ss = bingroups.ser_groups(tier, 'C03')
    if only:
        bs = [g for g in bs if any(g['id'].startswith(o) for o in only)]
        ss = [g for g in ss if any(g['id'].startswith(o) for o in only)]
    if bs:
        obs += binrun.run(bs, ('C03',))
    if ss:
        obs += binrun.run(ss, ('C03',), module=sercheck)
    enum = gen.binary_type_enum()
    documented = {i for _, i in info['doc_type_rows']}
    extra = {'undocumented_ids': sorted('%s=0x%02x' % (n, i) for n, i in enum.items() if i not in documented),
             'doc_rows': len(info['doc_type_rows'])}
    return C.finish('C03', tier, seed, obs, t0, ASSUMPTIONS, TRUSTED, RULE, extra_cov=extra)
