"""C04 the binary reader accepts any spec-conformant file — M obligations over Deserializer::deserialize with files produced by a
spec encoder transcribed from docs/binary.md (vlib/mirsym/bincheck.py), every degree of freedom symbolic or enumerated by nondet."""
from .. import common as C, gen

ASSUMPTIONS = [
    'files are uncompressed (compressed length 0): lz4/zstd are contract stubs, so "whatever its per-chunk compression" is claimed only for the dispatch in Chunk::decode (M8.chunk), not for the decompressors',
    'forests of up to 3 (quick) / 3 (thorough, more shapes) instances; referent numbers and class ids symbolic below 2^30; property columns of 2 instances with all value bits symbolic',
    'value kinds without an arm here (SharedString, OptionalCFrame, UniqueId, Font, SecurityCapabilities, Content, Int64 in attributes, Bytecode, Tags, Attributes, MaterialColors) are outside the claim',
    'Float32 -> Float64 widening: NaN must stay NaN (payload not compared; Rust leaves it unspecified)',
    'known-class behaviour is claimed only for the custom one-class database of M9.widen; the bundled database is not loaded symbolically',
]
TRUSTED = ['rustc nightly MIR of rbx_binary / rbx_dom_weak / rbx_types / rbx_reflection', 'vlib/mirsym interpreter and std contract models', 'spec encoder transcribed from docs/binary.md', 'z3']
RULE = 'each obligation: all MIR paths of Deserializer::deserialize over the symbolic file of each case; per path the solver decides that the decoded DOM equals the described one for every value of the symbolic bytes; non-trivial = at least one completed path'


def run(tier, seed, t0, only=None):
    from ..mirsym import binrun
    from . import bingroups
    gen.build_tools()
    binrun.refresh_mir()
    gs = bingroups.c04_groups(tier)
    if only:
        gs = [g for g in gs if any(g['id'].startswith(o) for o in only)]
    obs = binrun.run(gs, ('C04',))
    return C.finish('C04', tier, seed, obs, t0, ASSUMPTIONS, TRUSTED, RULE)
