"""C07 (binary half) serializer output is deterministic and stable under re-save — M obligations on the real
Serializer::serialize / Deserializer::deserialize (vlib/mirsym/sercheck.py det_case)."""
from .. import common as C, gen

ASSUMPTIONS = [
    'binary format only, compression off; the XML serializer (xml-rs emitter, float text) is not encodable: that half of the property is NOT claimed',
    'Ref values are symbolic (so every choice of referents is covered); every iteration order of the hash-based containers the writer touches is explored (order_mode = perm) instead of modelling RandomState seeds; every insertion order of the per-instance property lists',
    'DOMs with concrete logical content: the stated trees, classes and property values; unknown classes and the custom database of C08',
    're-save: write -> read -> write in one symbolic run gives the first bytes again',
]
TRUSTED = ['rustc nightly MIR of rbx_binary / rbx_dom_weak / rbx_types / rbx_reflection', 'vlib/mirsym interpreter and std contract models (hash containers iterate in an arbitrary order chosen by nondet)', 'z3']
RULE = 'per case all MIR paths (one per combination of container iteration orders and insertion orders); every path must yield the same concrete bytes, decided per structural byte by the solver where it depends on symbolic Refs'


def groups(tier):
    from . import colcases
    f = colcases.f32
    a = [('Beta', 'Int32', {'v': 5}), ('Alpha', 'Bool', {'v': True}), ('Gamma', 'Float32', {'v': f(1.5)})]
    # boundary values of the integer / float transformations: a value that does not survive load -> save breaks the fixed point
    big = [('Big', 'Int64', {'v': 1 << 31}), ('Neg', 'Int64', {'v': (-(1 << 31) - 1) & ((1 << 64) - 1)}), ('Min', 'Int32', {'v': 1 << 31}), ('NaN', 'Float32', {'v': 0x7fc00001}),
           ('Caps', 'SecurityCapabilities', {'v': (1 << 63) | 5}), ('Wide', 'Float64', {'v': 0xfff0000000000001})]
    cases = [
        dict(what='det', shape=[-1, 0, 0, 1], classes=['DataModel', 'B', 'A', 'B'], props={1: a[:2], 3: a[:1]}, order_mode='perm', permute_props=True),
        dict(what='det', shape=[-1, 0, 0], classes=['DataModel', 'A', 'A'], props={1: big[:3], 2: big[3:]}, order_mode='insertion'),
        dict(what='det', shape=[-1, 0, 0], classes=['DataModel', 'K', 'K'], db=colcases.DB, order_mode='perm', permute_props=True,
             props={1: [('size', 'Vector3', {'x': f(1.0), 'y': f(2.0), 'z': f(3.0)}), ('Val', 'Int32', {'v': 9})], 2: [('IgnoreGuiInset', 'Bool', {'v': True})]}),
    ]
    if tier != 'quick':
        cases.append(dict(what='det', shape=[-1, 0, 0, 1], classes=['DataModel', 'B', 'A', 'B'], props={1: a, 3: a[:1]}, order_mode='perm', permute_props=True))
        cases.append(dict(what='det', shape=[-1, 0, 1, 1, 0], classes=['DataModel', 'C', 'A', 'B', 'A'], props={2: a[:2], 4: a[1:]}, order_mode='perm', permute_props=True))
    return [dict(id='M5.det', desc='binary output is byte-identical under every Ref assignment, hash-iteration order and property insertion order, and write -> read -> write is a fixed point',
                 bounds='%d DOMs of <= 4 instances with 1-3 properties per instance (unknown classes and the custom database)' % len(cases), cases=cases, budget=1500)]


def run(tier, seed, t0, only=None):
    from ..mirsym import binrun, sercheck
    gen.build_tools()
    binrun.refresh_mir()
    gs = groups(tier)
    if only:
        gs = [g for g in gs if any(g['id'].startswith(o) for o in only)]
    obs = binrun.run(gs, ('C07',), module=sercheck)
    return C.finish('C07', tier, seed, obs, t0, ASSUMPTIONS, TRUSTED, RULE)
