"""C08 binary class columns with mixed property sets — M obligations: the real Serializer::serialize followed by the real
Deserializer::deserialize, executed symbolically on same-class instances over a custom reflection database
(vlib/props/colcases.py), every sibling order, all value bits symbolic."""
from .. import common as C, gen

ASSUMPTIONS = [
    'custom database with one class K: canonical Int32 with a default, Vector3 "Size" serialized as "size" (alias), Enum "ScreenInsets" with a plain alias and a migrating legacy Bool (IgnoreGuiInsetToScreenInsets), Bool without default; the bundled database (size/Size, Color/Color3uint8, BrickColor, Font) is the same mechanism but is not loaded symbolically',
    'multisets of 1-2 (quick) / up to 3 (thorough) instances, all sibling orders; property map iteration in insertion order',
    'compression off; expected value of a migrated legacy Bool is the documented mapping true -> 1, false -> 2 (PropertyMigration::perform itself is the subject of C15)',
    'neutral default: a value of the right type that does not depend on any symbolic input',
]
TRUSTED = ['rustc nightly MIR of rbx_binary / rbx_reflection / rbx_dom_weak / rbx_types', 'vlib/mirsym interpreter and std contract models', 'z3', 'tools/replayer bytes binary-encode (native confirmation with the same database)']
RULE = 'per case all MIR paths of serialize + deserialize; per path z3 decides that every instance reads back exactly its own values under canonical names, defaults elsewhere; non-trivial = completed path'


def run(tier, seed, t0, only=None):
    from ..mirsym import binrun, sercheck
    from . import colcases
    gen.build_tools()
    binrun.refresh_mir()
    cs = colcases.cases(tier)
    gs = [dict(id='M11.cols', desc='same-class instances carrying different property subsets (canonical, alias, serializes-as, migrating legacy names, none): serialization succeeds in every sibling order and each instance reads back its own values, database defaults or a neutral constant elsewhere',
               bounds='%d cases = multisets of <= %d instances of class K in every order; all value bits symbolic' % (len(cs), 2 if tier == 'quick' else 3), cases=cs, budget=600)]
    if only:
        gs = [g for g in gs if any(g['id'].startswith(o) for o in only)]
    obs = binrun.run(gs, ('C08',), module=sercheck) if gs else []
    # reader side of "never another instance's value": columns whose per-instance encoding has optional / variable parts, from the
    # spec encoder (same obligation as C04 M9.prop, 3 instances so that a value carried over between loop iterations shows)
    from ..mirsym import bincheck
    from . import bingroups
    rk = ['Font', 'String', 'PhysicalProperties', 'NumberSequence', 'ColorSequence', 'CFrame']
    rg = [dict(id='M11.reader', desc='reading a column whose values have optional or variable-length parts: every instance gets exactly its own value (nothing carried over from the previous instance of the column)',
               bounds='3 instances per column, kinds %s, all value bits symbolic' % ', '.join(rk),
               cases=[dict(what='prop', kind=k, n=3, opts=dict(bingroups.KIND_OPTS3.get(k, {}), **({'rot': [2, 0, 5]} if k == 'CFrame' else {}))) for k in rk], budget=600)]
    if only:
        rg = [g for g in rg if any(g['id'].startswith(o) for o in only)]
    if rg:
        obs += binrun.run(rg, ('C04', 'C08'), module=bincheck)
    return C.finish('C08', tier, seed, obs, t0, ASSUMPTIONS, TRUSTED, RULE)
