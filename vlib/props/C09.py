"""C09 WeakDom stays a well-formed forest: inductive step, invariant + descendants iterator + unresolvability."""
from . import domprops as D


def groups(tier):
    n1, nA, nB = (5, 4, 2) if tier == 'quick' else (6, 5, 3)
    g = [
        dict(id='M.C09.single', desc='Inv preserved by destroy / transfer_within / clone_within from every valid state; removed subtrees unresolvable; descendants iterator', ops=['destroy', 'transfer_within', 'clone_within'], cfg='plain', nA=n1),
        dict(id='M.C09.insert', desc='Inv preserved by insert of builder trees (<=3 nodes) under any parent or none', ops=['insert'], cfg='plain', nA=nA),
        dict(id='M.C09.two', desc='Inv on both DOMs after transfer / clone_into_external / clone_multiple_into_external', ops=D.domrun.TWO_DOM, cfg='plain', nA=nA, nB=nB),
        dict(id='M.C09.multi_overlap', desc='Inv on both DOMs after clone_multiple_into_external when the requested subtrees overlap or repeat (one request inside another, the same request twice): nothing in the docs excludes it', ops=['clone_multiple_into_external'], cfg='plain_overlap', nA=nA, nB=1),
    ]
    if tier == 'thorough':
        g.append(dict(id='M.C09.props', desc='same with UniqueId + Ref properties present on every instance', ops=D.ALL_OPS, cfg='all', nA=3, nB=2, builder_sizes=(1, 2)))
    return g


def run(tier, seed, t0, only=None):
    return D.run('C09', groups(tier), tier, seed, t0)
