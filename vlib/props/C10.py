"""C10 each WeakDom operation has exactly its documented effect: differential against a reference model + frame condition."""
from . import domprops as D


def groups(tier):
    n1, nA, nB = (5, 4, 2) if tier == 'quick' else (6, 5, 3)
    g = [
        dict(id='M.C10.single', desc='destroy / transfer_within = reference model step (appended last, order kept) and frame condition on every other instance', ops=['destroy', 'transfer_within'], cfg='plain', nA=n1),
        dict(id='M.C10.insert', desc='insert = reference model step: builder order, appended last under the parent, returned referent, payload preserved', ops=['insert'], cfg='plain', nA=nA),
        dict(id='M.C10.transfer', desc='transfer conserves the combined instance set, appends last, keeps referents/internal order/properties', ops=['transfer'], cfg='plain', nA=nA, nB=nB),
        dict(id='M.C10.builder', desc='InstanceBuilder API: with_child(ren)/add_child(ren)/with_propert(y|ies)/add_propert(y|ies) append in call order; with_name/class/referent replace one field; new/empty are empty with a fresh referent', ops=['builder'], cfg='all', nA=3),
        dict(id='M.C10.payload', desc='same with UniqueId + Ref + plain properties (payload and frame compared per property)', ops=['insert', 'destroy', 'transfer_within', 'transfer'], cfg='all', nA=3, nB=2, builder_sizes=(1, 2)),
    ]
    return g


def run(tier, seed, t0, only=None):
    return D.run('C10', groups(tier), tier, seed, t0)
