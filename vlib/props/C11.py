"""C11 cloning yields an isomorphic copy with correctly rewritten references."""
from . import domprops as D


def groups(tier):
    n1, nA, nB = (4, 3, 2) if tier == 'quick' else (5, 4, 3)
    g = [
        dict(id='M.C11.shape', desc='clone_*: fresh referents, parentless roots, isomorphic shape/order/name/class/properties, source untouched', ops=D.CLONES, cfg='plain', nA=n1 if tier == 'quick' else 4, nB=nB),
        dict(id='M.C11.refs', desc='Ref rewrite rule per Ref property (inside cloned set -> copy; outside but in destination -> kept; else null); one symbolic Ref property per instance', ops=D.CLONES, cfg='refs', nA=3, nB=2),
        dict(id='M.C11.order', desc='same under every iteration order of the hash containers (ref_rewrites, properties)', ops=D.CLONES, cfg='refs', nA=2 if tier == 'quick' else 3, nB=2, order='perm'),
    ]
    if tier == 'thorough':
        g.append(dict(id='M.C11.refs2', desc='two Ref properties on one instance, 4-node sources', ops=D.CLONES, cfg='refs2', nA=4, nB=2, budget=1500))
    return g


def run(tier, seed, t0, only=None):
    return D.run('C11', groups(tier), tier, seed, t0)
