"""C12 UniqueId uniqueness: bookkeeping invariant (inductive) + replace-only-on-collision rule."""
from . import domprops as D


def groups(tier):
    nA, nB = (3, 2) if tier == 'quick' else (4, 3)
    g = [
        dict(id='M12.inv', desc='unique_ids = ids held, pairwise distinct, after every operation; incoming ids replaced iff colliding, preserved otherwise; freed on destroy/transfer', ops=D.ALL_OPS, cfg='uids', nA=nA, nB=nB, builder_sizes=(1, 2)),
        dict(id='M12.mixed', desc='same with only some instances carrying a UniqueId', ops=D.ALL_OPS, cfg='uids_mixed', nA=nA, nB=nB, builder_sizes=(1, 2)),
    ]
    return g


def run(tier, seed, t0, only=None):
    return D.run('C12', groups(tier), tier, seed, t0)
