"""C12 UniqueId uniqueness: bookkeeping invariant (inductive) + replace-only-on-collision rule."""
from . import domprops as D


def groups(tier):
    nA, nB = (3, 2) if tier == 'quick' else (4, 3)
    g = [
        dict(id='M12.inv', desc='unique_ids = ids held, pairwise distinct, after every operation; incoming ids replaced iff colliding, preserved otherwise; freed on destroy/transfer', ops=D.ALL_OPS, cfg='uids', nA=nA, nB=nB, builder_sizes=(1, 2)),
        dict(id='M12.mixed', desc='same with only some instances carrying a UniqueId', ops=D.ALL_OPS, cfg='uids_mixed', nA=nA, nB=nB, builder_sizes=(1, 2)),
    ]
    return g


def now_obligations(tier):
    """M13: the real UniqueId::now under every interleaving of its atomic operations (vlib/mirsym/nowcheck.py)"""
    import time
    from .. import common as C
    from ..mirsym import nowcheck, mirdump
    from ..mirsym.program import Program
    from ..mirsym.interp import Stats
    mirdump.dump('rbx_types')
    prog = Program(['rbx_types'], mirdump.MIR_DIR)
    cfgs = [dict(threads=1, calls=3), dict(threads=2, calls=1), dict(threads=2, calls=2, pb=3)] + ([] if tier == 'quick' else [dict(threads=3, calls=1), dict(threads=2, calls=3, pb=3)])
    ob = C.Obligation('M13.now', 'ids returned by concurrent UniqueId::now() calls are pairwise distinct in every interleaving (clock, random source and the start of the global counter arbitrary): discharges the freshness assumption A2 of the WeakDom obligations',
                      'M', '%s threads x calls, switch at every atomic operation, <= 3 preemptions' % [(c['threads'], c['calls']) for c in cfgs], functions=['UniqueId::now'])
    st = Stats()
    t = time.time()
    for cfg in cfgs:
        r = nowcheck.explore(prog, cfg, st, budget_s=600)
        ob.paths += r['paths']
        if r['unsupported']:
            ob.status, ob.detail = C.INCONCLUSIVE, r['unsupported'][:300]
            break
        for v in r['violations']:
            ob.violations.append(dict(key='now_duplicate_id' if 'duplicate' in v['label'] else 'now_panic', what=v['label'][:300] + ' :: ' + str(v.get('replay_detail'))[:200], replay=v.get('replay'), confirmed=bool(v.get('confirmed'))))
    else:
        ob.status = C.FAIL if ob.violations else C.PASS
        ob.vacuity = ob.paths > 0
        if ob.violations:
            ob.detail = ob.violations[0]['what']
    ob.queries, ob.solver_s, ob.wall_s = st.queries, st.solver_s, time.time() - t
    ob.stubs = sorted(st.models_used)
    tw = C.Obligation('M13.twin', 'vacuity twin: with the counter update split into load + store the duplicate must be found', 'M', '2 threads x 1 call')
    r = nowcheck.explore(prog, dict(threads=2, calls=1, twin=True), Stats(), budget_s=120)
    tw.paths, tw.queries = r['paths'], 1
    if r['violations']:
        tw.status, tw.vacuity = C.PASS, True
    else:
        tw.status, tw.detail = C.INCONCLUSIVE, 'twin found no violation: %s' % r['unsupported']
    return [ob, tw]


def run(tier, seed, t0, only=None):
    from .. import gen
    gen.build_tools()           # the native replayer must be built from the current tree before any obligation may replay on it
    return D.run('C12', groups(tier), tier, seed, t0, extra_obs=now_obligations(tier))
