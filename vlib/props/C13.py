"""C13 decoders never panic — K obligations (file header), M obligations (attribute blobs, binary chunks/files)."""
from .. import common as C, gen, kani as K


def harnesses(tier):
    H = K.Harness
    return [
        H('rbx_binary', 'k9_file_header_decode', 'K9.any', 'FileHeader::decode on arbitrary bytes: no panic; Ok => 32 bytes consumed, magic/signature/version/reserved as specified, counts little endian', 'any prefix <= 34 bytes', timeout=900, functions=['FileHeader::decode', 'RbxReadExt::read_le_u16', 'RbxReadExt::read_le_u32']),
        H('rbx_binary', 'k9_file_header_accepts_spec', 'K9.spec', 'every spec-conformant header is accepted with its counts', 'all (u32,u32)', timeout=900, functions=['FileHeader::decode']),
        H('rbx_binary', 'kx_vacuity_twin_binary', 'KX.twin.binary', 'vacuity twin (must fail)', '-', expect_fail=True),
    ]


ASSUMPTIONS = ['XML decoder (xml-rs) and real decompressors are outside the claim']
TRUSTED = ['rustc (Kani toolchain)', 'Kani 0.68 / CBMC 6.11']
RULE = 'one Kani harness per obligation over arbitrary input bytes with a symbolic length'


def attr_groups(tier):
    nmax = 14 if tier == 'quick' else 17
    # a valid one-entry blob prefix steers part of the search into the value decoders (count=1, name "a")
    pre = [1, 0, 0, 0, 1, 0, 0, 0, 0x61]
    g = [
        dict(id='M16.fuzz', desc='Attributes::from_reader on arbitrary bytes: Ok or Err, never a panic; every allocation request bounded by the input size', bounds='every input of 0..%d bytes (all byte values symbolic)' % nmax,
             cases=[dict(what='fuzz', len=n) for n in range(0, nmax + 1)], budget=900),
        dict(id='M16.fuzz.entry', desc='same, inputs that start with a well-formed count and name so that every value decoder is reached with a truncated or arbitrary payload', bounds='9-byte valid prefix + 1..%d arbitrary bytes' % (nmax - 2),
             cases=[dict(what='fuzz', len=9 + n, prefix=pre) for n in range(1, nmax - 1)], budget=900),
        dict(id='M16b.partition', desc='decoding result independent of how the reader delivers the bytes to the hand-written read loop (short reads of any size, Interrupted errors); std read_exact/read_to_end are partition-independent by contract', bounds='every input of 0..6 bytes and a valid 11-byte one-entry blob, <= 10 read() calls, <= 2 consecutive interruptions',
             cases=[dict(what='partition', len=n) for n in range(0, 7)] + [dict(what='partition', len=11, prefix=pre + [0x03])], budget=600),
        dict(id='M18.attr_sink', desc='Attributes::to_writer into a sink that fails after k bytes returns that error (never Ok, never a panic)', bounds='1-entry maps (Bool, String), every k below the blob size',
             cases=[dict(what='sink', entries=[(kind, 1, 1)], fail_at=k) for kind, total in (('Bool', 11), ('String', 15)) for k in range(0, total)], budget=300),
    ]
    return g


def run(tier, seed, t0, only=None):
    from ..mirsym import attrrun, binrun, mirdump
    from . import bingroups
    gen.build_tools()
    gen.write_kani_tables()
    binrun.refresh_mir()
    hs = harnesses(tier)
    if only:
        hs = [h for h in hs if any(h.oid.startswith(o) for o in only)]
    gs = attr_groups(tier)
    bs = bingroups.c13_groups(tier)
    if only:
        gs = [g for g in gs if any(g['id'].startswith(o) for o in only)]
        bs = [g for g in bs if any(g['id'].startswith(o) for o in only)]
    obs = attrrun.run(gs, ('C13',)) if gs else []
    obs += binrun.run(bs, ('C13',)) if bs else []
    from ..mirsym import sercheck
    ws = bingroups.c13_ser_groups(tier)
    if only:
        ws = [g for g in ws if any(g['id'].startswith(o) for o in only)]
    obs += binrun.run(ws, ('C13',), module=sercheck) if ws else []
    obs += K.run_harnesses(hs, tier) if hs else []
    return C.finish('C13', tier, seed, obs, t0, ASSUMPTIONS + ASSUMPTIONS_M, TRUSTED + ['rustc nightly MIR of rbx_types; vlib/mirsym interpreter with Read/Write cursor models; z3'], RULE)


ASSUMPTIONS_M = [
    'attribute decoder: inputs up to the stated length with every byte symbolic; Read is a cursor model (one-shot, or delivering a symbolic number of bytes per call with Interrupted errors)',
    'allocation obligation: a buffer request whose size term can exceed max(64, 16 x input length) under the path condition is reported',
    'binary decoder: Chunk::decode on every input up to the stated length; Deserializer::deserialize on files whose one chunk body (META/SSTR/INST/PRNT/PROP of each wire type) is arbitrary up to the stated length; every strict prefix of one valid file',
    'lz4 / zstd decompressors are contract stubs (output = arbitrary bytes of the announced length, or an error); their own memory safety is outside the claim',
    'panics = MIR assert/abort terminators, slice/index bounds, unwrap/expect on None/Err, integer overflow only where release builds check it',
    'XML reader (xml-rs pull parser) is not encoded: the rbx_xml half of the property is not claimed',
]
