"""C13 decoders never panic — K obligations (file header)."""
from .. import common as C, gen, kani as K


def harnesses(tier):
    H = K.Harness
    return [
        H('rbx_binary', 'k9_file_header_decode', 'K9.any', 'FileHeader::decode on arbitrary bytes: no panic; Ok => 32 bytes consumed, magic/signature/version/reserved as specified, counts little endian', 'any prefix <= 34 bytes', timeout=900, functions=['FileHeader::decode', 'RbxReadExt::read_le_u16', 'RbxReadExt::read_le_u32']),
        H('rbx_binary', 'k9_file_header_accepts_spec', 'K9.spec', 'every spec-conformant header is accepted with its counts', 'all (u32,u32)', timeout=900, functions=['FileHeader::decode']),
        H('rbx_binary', 'kx_vacuity_twin_binary', 'KX.twin.binary', 'vacuity twin (must fail)', '-', expect_fail=True),
    ]


ASSUMPTIONS = ['XML decoder (xml-rs) and real decompressors are outside the claim']
TRUSTED = ['rustc (Kani toolchain)', 'Kani 0.68 / CBMC 6.11']
RULE = 'one Kani harness per obligation over arbitrary input bytes with a symbolic length'


def run(tier, seed, t0, only=None):
    gen.build_tools()
    gen.write_kani_tables()
    hs = harnesses(tier)
    if only:
        hs = [h for h in hs if any(h.oid.startswith(o) for o in only)]
    obs = K.run_harnesses(hs, tier)
    return C.finish('C13', tier, seed, obs, t0, ASSUMPTIONS, TRUSTED, RULE)
