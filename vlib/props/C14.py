"""C14 attribute blobs round-trip and follow the documented layout."""
from .. import common as C, gen, kani as K
from ..mirsym import attrrun, attrcheck, mirdump

ASSUMPTIONS = [
    'maps of 1-2 entries, names 0-2 bytes (any valid UTF-8, decided by an exact UTF-8 validity formula), strings / sequences of 0-2 elements; larger maps and payloads are outside the claim',
    'floats are bit patterns (all NaN payloads, signed zeros, subnormals inside); CFrame: each of the 24 documented rotation ids (matrix obtained from the real from_basic_rotation_id) and general matrices whose entries have magnitude >= 2; the epsilon snap itself is decided by the Kani obligations K4',
    'spec encoder transcribed from docs/attributes.md (type ids parsed from the document at run time); String decodes as BinaryString and the colour keypoint envelope is not represented, as the statement allows',
    'Read / Write / BTreeMap / Vec / String::from_utf8 are contract models (listed under stubs); "same blob in both file formats" (base64/XML wrapping) is outside',
]
TRUSTED = ['rustc nightly MIR of rbx_types', 'vlib/mirsym interpreter + I/O and container models', 'z3', 'docs/attributes.md transcription in vlib/mirsym/attrcheck.py (Spec)', 'tools/replayer bytes attr-roundtrip (native confirmation)']
RULE = ('each case = a symbolic attribute map (kinds, name lengths, sequence sizes fixed; every byte / float bit / integer symbolic); all paths of the real to_writer and from_reader are explored; '
        'per path z3 decides: written bytes = documented layout, decode(encode(m)) = m bit for bit')


def groups(tier):
    kinds = attrcheck.KINDS
    single = [dict(what='rt', entries=[(k, 1, 1)]) for k in kinds]
    single += [dict(what='rt', entries=[(k, nl, sz)]) for k, nl, sz in [('Bool', 0, 1), ('Bool', 2, 1), ('BinaryString', 1, 0), ('BinaryString', 1, 2), ('String', 1, 0), ('String', 2, 2),
                                                                          ('NumberSequence', 1, 0), ('NumberSequence', 1, 2), ('ColorSequence', 1, 0), ('ColorSequence', 1, 2), ('EnumItem', 1, 0), ('EnumItem', 1, 2), ('Font', 1, 0)]]
    pairs = [('Bool', 'Int32'), ('String', 'Vector3'), ('Float64', 'BinaryString'), ('NumberSequence', 'UDim2'), ('ColorSequence', 'Rect'), ('EnumItem', 'Color3'), ('Vector2', 'NumberRange'), ('UDim', 'Float32')]
    if tier == 'thorough':
        pairs = [(a, b) for a in kinds for b in kinds if a <= b and 'BrickColor' not in (a, b) and 'Font' not in (a, b)]
    two = [dict(what='rt', entries=[(a, 1, 1), (b, 1, 1)]) for a, b in pairs]
    g = [
        dict(id='M19.empty', desc='empty map <-> zero bytes', bounds='-', cases=[dict(what='empty')]),
        dict(id='M19.single', desc='every supported type: written bytes = documented layout and decode(encode(m)) = m (one entry)', bounds='1 entry, names 0-2 bytes, strings/sequences 0-2 elements, all 208 BrickColors, all 24 rotation ids, 9x2 fonts', cases=single),
        long_group(),
        dict(id='M19.two', desc='two-entry maps: count, ordering by name, per-entry framing', bounds='2 entries, 1-byte names (symbolic order)', cases=two, budget=600),
    ]
    return g


def long_group():
    from . import bingroups
    sizes, consts = bingroups.boundary_sizes(['attributes/reader.rs', 'attributes/writer.rs', 'attributes/mod.rs'], crates=['rbx_types'])
    return dict(id='M19.long', desc='String / BinaryString / NumberSequence / ColorSequence attributes with lengths at the boundary constants of the reader / writer code: layout and round trip',
                bounds='1 entry; lengths %s (65 and c, c+1 for the constants %s mined from the MIR of attributes/*.rs)' % (sizes, consts),
                cases=[dict(what='rt', entries=[(k, 1, n)], range_limit=n + 8) for k in ('String', 'BinaryString', 'NumberSequence', 'ColorSequence') for n in sizes], budget=900)


def run(tier, seed, t0, only=None):
    gen.build_tools()
    gen.write_kani_tables()
    mirdump.dump('rbx_types')
    gs = groups(tier)
    if only:
        gs = [g for g in gs if any(g['id'].startswith(o) for o in only)]
    obs = attrrun.run(gs, ('C14', 'C13.panic'))          # a panic while writing or reading back is a failed round trip too
    obs.append(attrrun.twin())
    # Z3: type id table of the code = Type ID headings of the document (both directions), decided on the real MIR of
    # type_id::{to,from}_variant_type for all 256 ids
    obs.append(type_id_table())
    if not only:
        H = K.Harness
        obs += K.run_harnesses([
            H('rbx_types', 'k4_rotation_id_roundtrip', 'K4.ids', 'CFrame rotation ids: from_basic_rotation_id(id)=Ok(m) => to_basic_rotation_id(m)=Some(id)', 'all 256 ids'),
            H('rbx_types', 'k4_rotation_table_proper', 'K4.proper', 'every basic rotation id maps to a proper rotation of the cube: entries in {-1,0,1}, orthonormal rows, determinant +1 (oracle independent of the table)', 'all 256 ids', timeout=900, functions=['Matrix3::from_basic_rotation_id']),
            H('rbx_types', 'k4_rotation_snap_within_epsilon', 'K4.snap', 'a matrix is written as a rotation id only if every entry is within f32::EPSILON of that rotation', '9 symbolic f32', timeout=1500,
              finding_key='rotation_snap_beyond_epsilon'),
        ], tier)
    return C.finish('C14', tier, seed, obs, t0, ASSUMPTIONS, TRUSTED, RULE)


def type_id_table():
    import z3
    from ..mirsym.interp import Exec, Stats
    from ..mirsym.rbx_models import World
    from ..mirsym.values import mk_int, Unsupported
    ob = C.Obligation('Z3.typeids', 'type_ids! table = Type ID headings of docs/attributes.md, both directions (real MIR of to_variant_type / from_variant_type on every id)', 'M', 'all 256 ids x all variant types')
    try:
        prog = attrrun._load()
        to_vt = prog.resolve('to_variant_type')
        from_vt = prog.resolve('from_variant_type')
        doc = attrcheck.doc_type_ids()
        M = attrcheck.make_models()
        st = Stats()
        doc_by_id = {v: k for k, v in doc.items()}
        bad = []
        for b in range(256):
            ex = Exec(prog, M, [], st)
            ex.world = World()
            r = ex.force(ex.call_fn(to_vt, [mk_int(b, 'u8')]))
            name = r.f[0].variant if r.variant == 'Some' else None
            want = doc_by_id.get(b)
            want = {'String': 'BinaryString'}.get(want, want)
            if name != want:
                bad.append('id 0x%02x decodes as %s, document says %s' % (b, name, want))
            if name is not None:
                back = ex.force(ex.call_fn(from_vt, [r.f[0]]))
                if back.variant != 'Some' or back.f[0].concrete() != b:
                    bad.append('%s encodes as %s, decoded from 0x%02x' % (name, back, b))
        ob.queries, ob.paths = 256, 256
        if bad:
            ob.status, ob.detail = C.FAIL, '; '.join(bad[:3])
            ob.violations.append(dict(key='attr_type_id_table', what=ob.detail, replay=None, confirmed=True))
        else:
            ob.status, ob.vacuity = C.PASS, True
    except Unsupported as u:
        ob.status, ob.detail = C.INCONCLUSIVE, str(u)[:300]
    return ob
