"""C15 migrations — K obligations: PropertyMigration::perform total on every legacy value the database admits."""
from .. import common as C, gen, kani as K


def harnesses(tier):
    H = K.Harness
    return [
        H('rbx_reflection', 'k12_font_migration_total', 'K12.font', 'FontToFontFace: every Enum.Font item of the database migrates to a Font', 'all items of Enum.Font from dbdump (minus listed known findings)', timeout=1500,
          functions=['PropertyMigration::perform'], finding_key='font_item_unmigratable', finding_what='an Enum.Font item listed in the database has no migration'),
        H('rbx_reflection', 'k12_gui_inset_migration_total', 'K12.inset', 'IgnoreGuiInsetToScreenInsets: true->1, false->2', 'both booleans', functions=['PropertyMigration::perform']),
        H('rbx_reflection', 'k12_brickcolor_migration_total', 'K12.brickcolor', 'BrickColorToColor: every valid BrickColor number migrates to its palette Color3uint8', 'all u16', timeout=1500, functions=['PropertyMigration::perform', 'BrickColor::to_color3uint8']),
        H('rbx_reflection', 'k12_wrong_type_is_err', 'K12.wrongtype', 'a value of the wrong type is an Err for every operation (no panic)', '4 operations x all i32', timeout=900, functions=['PropertyMigration::perform']),
        H('rbx_reflection', 'kx_vacuity_twin_reflection', 'KX.twin.reflection', 'vacuity twin (must fail)', '-', expect_fail=True),
    ]


ASSUMPTIONS = ['ContentIdToContent over arbitrary strings is outside', 'reader/writer routing is decided for the binary format only (M22: MIR symbolic execution over a custom one-class database with an IgnoreGuiInset-style migration); the XML read/write paths run through xml-rs and are outside', 'the 12 migrating class/property pairs of the bundled database share this code path; they are not each loaded symbolically']
TRUSTED = ['rustc (Kani toolchain)', 'Kani 0.68 / CBMC 6.11', 'dbdump (real serde decoding of database.msgpack)']
RULE = 'one Kani harness per migration operation; the legacy value domain is generated from the real database at run time'


def native_font(v):
    import json
    rc, out, _ = C.run([gen.tool('replayer'), 'migrate', 'TextLabel', 'Font', json.dumps({'Enum': v})], timeout=60)
    return out.strip()


def run(tier, seed, t0, only=None):
    gen.build_tools()
    info = gen.write_kani_tables()
    hs = harnesses(tier)
    if only:
        hs = [h for h in hs if any(h.oid.startswith(o) for o in only)]
    obs = K.run_harnesses(hs, tier)
    # Known findings are keyed by the failing value.  The Kani harness excludes the listed values (so any other
    # unmigratable item is still a counterexample); each listed value is re-examined natively against the real code.
    for ob in obs:
        if ob.id == 'K12.font' and ob.status == C.FAIL:
            # one counterexample value came from the solver; name every failing database item natively so the
            # report is per value
            confirmed = any(v.get('confirmed') for v in ob.violations)
            replay = ob.violations[0].get('replay') if ob.violations else None
            ob.violations = []
            for v in info['font_items']:
                if v in info['font_excluded']:
                    continue
                r = native_font(v)
                if r.startswith('ERR'):
                    ob.violations.append(dict(key='font_item_unmigratable:%d' % v, what='Enum.Font item %d is in the database but PropertyMigration::perform rejects it: %s' % (v, r[:120]), replay=replay, confirmed=confirmed))
    if info['font_excluded'] and not only:
        ob = C.Obligation('K12.font.known', 'listed known findings re-examined natively (real database migration through the replayer)', 'native', 'values listed in known_findings.json')
        still = 0
        for v in info['font_excluded']:
            r = native_font(v)
            if r.startswith('ERR'):
                still += 1
                ob.violations.append(dict(key='font_item_unmigratable:%d' % v, what='Enum.Font item %d still has no migration (%s)' % (v, r[:100]), replay=None, confirmed=True))
        ob.status, ob.queries, ob.vacuity = C.PASS, len(info['font_excluded']), True
        ob.samples = [{'still_failing': still, 'listed': info['font_excluded']}]
        obs.append(ob)
    ms = routing_groups(tier)
    if only:
        ms = [g for g in ms if any(g['id'].startswith(o) for o in only)]
    if ms:
        from ..mirsym import binrun, bincheck, sercheck
        binrun.refresh_mir()
        for g in ms:
            obs += binrun.run([g], ('C15', 'C08'), module=sercheck if g['id'] == 'M22.write' else bincheck)
    return C.finish('C15', tier, seed, obs, t0, ASSUMPTIONS, TRUSTED, RULE)


def routing_groups(tier):
    """binary read / write routing of a migrating legacy property over the custom database of vlib/props/colcases.py"""
    from . import colcases
    w = [c for c in colcases.cases(tier) if 'legacy' in c['tag'] or 'both' in c['tag']]
    return [
        dict(id='M22.read', desc='binary read path: a legacy Bool column (IgnoreGuiInset) of a known class decodes as the new property only; an explicit ScreenInsets column wins in either chunk order',
             bounds='1-2 instances, both booleans / all u32 enum values symbolic, both chunk orders', budget=300,
             cases=[dict(what='migr', n=n, explicit=e, classes=colcases.DB) for n in (1, 2) for e in (False, True)]),
        dict(id='M22.write', desc='binary write path: instances carrying the legacy name, the new name, an alias of it, both or none, in every sibling order: written and read back as the new property with the migrated / explicit value',
             bounds='%d multisets/orders of <= %d instances' % (len(w), 2 if tier == 'quick' else 3), cases=w, budget=600),
    ]
