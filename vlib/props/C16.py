"""C16 the bundled reflection database is coherent: closure facts over the real database (dbdump) as SMT tables."""
import time
from .. import common as C, gen, ztables as Z

ASSUMPTIONS = [
    'the database is the one the real crates decode (tools/dbdump: rbx_reflection_database::get() through the real serde types), re-dumped from /repo on every run',
    'tables are uninterpreted functions with one ground fact per database entry; absent (class, name) pairs are handled by an exact per-lookup closed-world constraint (descriptors of a class are numbered contiguously)',
    'superclass-chain depth bound = smallest k for which the solver proves every chain ends within k steps (reported in evidence)',
    'facts whose symbolic-index query does not finish within the cap (those using the superclass-chain lookup) are decided instance-wise: one solver query per database entry in an incremental session',
    'outside the claim: "an instance of any class with its defaults is written and read back unchanged by both formats" (whole pipelines); lookups: decided by M20 on databases that have the shapes of the bundled one (chain depths, inherited defaults, serializes-as target kinds, all recomputed from the real database), not on the 797-class database itself',
]
TRUSTED = ['tools/dbdump + serde decoding of database.msgpack', 'z3 4.8.12 (primary), cvc5 1.0 (cross-check)', 'the SMT-LIB table generator vlib/ztables.py']
RULE = 'one obligation per closure fact; the negated fact over symbolic (or, instance-wise, every) class / descriptor / default index must be unsat; non-trivial = decided unsat with a non-empty domain and the sanity query (must be sat) satisfied'


def run(tier, seed, t0, only=None):
    gen.build_tools()
    db = gen.database()
    T = Z.Tables(db)
    T.smt()
    obs = []
    cap = 120 if tier == 'quick' else 600
    cross_all = tier == 'thorough'
    # chain depth bound, determined by the solver
    depth = None
    for k in range(1, 13):
        qs = {q[0]: q for q in Z.queries(k)}
        _, _, q, f, wit = qs['Z5.chain_terminates']
        r = Z.decide(T, q, f, wit, timeout=60, cross=False)
        if r['z3'] == 'unsat':
            depth = k
            break
    ob = C.Obligation('Z5.depth', 'smallest k such that every superclass chain ends within k steps (solver-determined)', 'Z', 'k <= 12')
    if depth is None:
        ob.status, ob.detail = C.FAIL, 'no k <= 12 bounds the superclass chains (cycle or dangling superclass?)'
        ob.violations.append(dict(key='db:chain_unbounded', what=ob.detail, replay=None, confirmed=True))
        depth = 12
    else:
        ob.status, ob.vacuity, ob.queries = C.PASS, True, depth
        ob.samples = [{'max_chain_depth': depth}]
    obs.append(ob)
    sizes = {'c': len(T.classes), 'p': len(T.props), 'd': len(T.defaults)}
    for qid, desc, q, f, wit in Z.queries(depth + 1):
        if only and not any(qid.startswith(o) for o in only):
            continue
        ob = C.Obligation(qid, desc, 'Z', 'all %s' % ', '.join('%d %s' % (sizes[w], {'c': 'classes', 'p': 'property descriptors', 'd': 'default values'}[w]) for w in wit))
        ob.functions = sorted(q.used)
        uses_find = any(a.startswith('(= v') and 'ite (not' in a for a in q.asserts)
        t = time.time()
        if not uses_find:
            cross = cross_all or qid.startswith('Z5')
            r = Z.decide(T, q, f, wit, timeout=cap, cross=cross)
            ob.solver_s = r['z3_s'] + r['cvc5_s']
            ob.extra['verdicts'] = dict(z3=r['z3'], cvc5=r['cvc5'])
            if r['z3'] == 'unsat' and r['cvc5'] in ('unsat', 'skipped', 'timeout'):
                ob.status, ob.queries, ob.vacuity = C.PASS, 1 + (r['cvc5'] == 'unsat'), True
            elif r['z3'] == 'sat':
                ob.status = C.FAIL
                wv = {k: describe(T, k, v) for k, v in r['model'].items()}
                ob.detail = 'offending entry: %s' % wv
                ob.violations.append(dict(key='db:%s:%s' % (qid, '/'.join(map(str, wv.values()))), what='%s violated by %s' % (desc, wv), replay=None, confirmed=(r['cvc5'] in ('sat', 'skipped', 'timeout'))))
            else:
                ob.status, ob.detail = C.INCONCLUSIVE, 'z3=%s cvc5=%s %s' % (r['z3'], r['cvc5'], r['raw'])
            if r['z3'] in ('sat', 'unsat') and r['cvc5'] in ('sat', 'unsat') and r['z3'] != r['cvc5']:
                ob.status, ob.detail = C.INCONCLUSIVE, 'solver disagreement z3=%s cvc5=%s' % (r['z3'], r['cvc5'])
        else:
            w = wit[0]
            r = Z.decide_enum_parallel(T, q, f, w, sizes[w], jobs=14, timeout=1500)
            ob.solver_s = r['secs']
            ob.extra['mode'] = 'instance-wise (one query per entry, incremental sessions in parallel)'
            if not r['complete']:
                ob.status, ob.detail = C.INCONCLUSIVE, 'only %d of %d instances decided: %s' % (r['checked'], sizes[w], r['raw'])
            elif r['offending']:
                ob.status = C.FAIL
                for k in r['offending'][:5]:
                    dsc = describe(T, w, k)
                    ob.violations.append(dict(key='db:%s:%s' % (qid, dsc), what='%s violated by %s' % (desc, dsc), replay=None, confirmed=True))
                ob.detail = ob.violations[0]['what']
            else:
                ob.status, ob.queries, ob.vacuity = C.PASS, r['checked'], True
        ob.wall_s = time.time() - t
        obs.append(ob)
    # sanity: the tables are not empty / not trivially inconsistent
    ob = C.Obligation('Z.sanity', 'sanity (must be sat): class Part exists and its superclass chain passes through BasePart', 'Z', '-')
    q = Z.Q(depth)
    c = q.var('c')
    anc = [c]
    for _ in range(depth):
        anc.append(q.app('superclass', anc[-1]))
    f = '(and (= c %d) (or %s))' % (T.cid.get('Part', 0), ' '.join('(= %s %d)' % (a, T.cid.get('BasePart', -5)) for a in anc))
    r = Z.decide(T, q, f, ['c'], timeout=60, cross=False)
    if r['z3'] == 'sat':
        ob.status, ob.vacuity, ob.queries = C.PASS, True, 1
    else:
        ob.status, ob.detail = C.INCONCLUSIVE, 'sanity query is %s' % r['z3']
    obs.append(ob)
    if not only or any(o.startswith('M20') for o in only):
        obs += lookup_obligations(db, depth)
    extra = dict(classes=len(T.classes), property_descriptors=len(T.props), defaults=len(T.defaults), enums=len(T.enums), chain_depth=depth)
    return C.finish('C16', tier, seed, obs, t0, ASSUMPTIONS, TRUSTED, RULE, extra_cov=extra)


def describe(T, var, k):
    try:
        if var == 'c':
            return T.classes[k - 1]
        if var == 'p':
            return '%s.%s' % T.props[k - 1][:2]
        if var == 'd':
            return 'default %s.%s' % T.defaults[k - 1][:2]
    except IndexError:
        pass
    return '%s=%d' % (var, k)


def serializes_as_shapes(db):
    """kinds of descriptor that SerializesAs targets have in the real database"""
    shapes = {}
    for cn, c in db['Classes'].items():
        for pn, p in c['Properties'].items():
            k = p['Kind']
            ser = k.get('Canonical', {}).get('Serialization') if isinstance(k, dict) else None
            if isinstance(ser, dict) and 'SerializesAs' in ser:
                tp = c['Properties'].get(ser['SerializesAs'])
                if tp is None:
                    sh = 'missing'
                elif 'Alias' in tp['Kind']:
                    sh = 'alias_back' if tp['Kind']['Alias']['AliasFor'] == pn else 'alias_other'
                else:
                    s_ = tp['Kind']['Canonical']['Serialization']
                    sh = 'canonical:%s' % (s_ if isinstance(s_, str) else list(s_)[0])
                shapes.setdefault(sh, []).append('%s.%s' % (cn, pn))
    return shapes


def lookup_obligations(db, depth):
    """M20: the lookup functions themselves (MIR symbolic execution) on databases with the shapes of the real one"""
    from ..mirsym import binrun, lookupcheck
    binrun.refresh_mir()
    shapes = serializes_as_shapes(db)
    inherit = 0
    for cn, c in db['Classes'].items():          # how far defaults are inherited in the real database
        seen, cur, lvl = set(c['DefaultProperties']), c, 0
        while cur.get('Superclass'):
            cur = db['Classes'][cur['Superclass']]
            lvl += 1
            if set(cur['DefaultProperties']) - seen:
                inherit = max(inherit, lvl)
            seen |= set(cur['DefaultProperties'])
    dmax = depth + 1
    groups = [
        dict(id='M20.chain', desc='superclasses / superclasses_iter / has_superclass return the whole chain down to the root', bounds='chains of 1..%d classes (the real maximum is %d, decided by Z5.depth)' % (dmax, depth),
             cases=[dict(what='chain', depth=d) for d in range(1, dmax + 1)], budget=300),
        dict(id='M20.default', desc='find_default_property returns the nearest definition on the chain and None when nobody defines it', bounds='chains of 1..%d classes, the default defined at one or two levels (the real database inherits over up to %d levels)' % (min(dmax, 5), inherit),
             cases=[dict(what='default', depth=d, at=at, filler=fl) for fl in (False, True) for d in range(1, min(dmax, 5) + 1) for at in ([()] + [(j,) for j in range(d)] + [(j, k) for j in range(d) for k in range(j + 1, d)])], budget=300),
        dict(id='M20.serialized', desc='find_property_descriptors resolves a serializes-as target to the descriptor of that name for every target kind the real database contains, through the canonical name and an alias, on the class and a subclass',
             bounds='target kinds in the database: %s' % {k: len(v) for k, v in shapes.items()}, cases=[dict(what='ser', shape=k) for k in sorted(shapes) if k != 'missing'], budget=300),
    ]
    return binrun.run(groups, ('C16',), module=lookupcheck)
