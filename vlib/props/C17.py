"""C17 value encodings — K obligations: bit sets, BrickColor numbers, font enums, Ref/UniqueId parse side."""
from .. import common as C, gen, kani as K


def harnesses(tier):
    H = K.Harness
    return [
        H('rbx_types', 'k13_faces_bits', 'K13.faces', 'Faces::from_bits: identity on valid masks, None elsewhere, contains() = bit test', 'all 256 bytes', functions=['Faces::from_bits', 'Faces::bits', 'Faces::contains']),
        H('rbx_types', 'k13_axes_bits', 'K13.axes', 'Axes::from_bits likewise', 'all 256 bytes', functions=['Axes::from_bits', 'Axes::bits', 'Axes::contains']),
        H('rbx_types', 'k13_brickcolor_number', 'K13.brickcolor', 'BrickColor::from_number(n) as u16 = n', 'all 65536 numbers', functions=['BrickColor::from_number']),
        H('rbx_types', 'k13_brickcolor_variants', 'K13.brickcolor.complete', 'every BrickColor variant v: from_number(v as u16) = Some(v)', 'all variants of the enum (list regenerated from the make_brick_color! invocation)', functions=['BrickColor::from_number']),
        H('rbx_types', 'k13_font_weight_style', 'K13.font', 'FontWeight::from_u16/as_u16 and FontStyle::from_u8/as_u8 are inverse', 'all u16 / u8', functions=['FontWeight::from_u16', 'FontWeight::as_u16', 'FontStyle::from_u8', 'FontStyle::as_u8']),
        H('rbx_types', 'k13_security_capabilities_bits', 'K13.seccap', 'SecurityCapabilities bits identity', 'all u64', functions=['SecurityCapabilities::from_bits', 'SecurityCapabilities::bits']),
        H('rbx_types', 'k14_uniqueid_parse_of_printed_form', 'K14.uniqueid', 'UniqueId::from_str accepts its own text form and returns the same fields', 'all (u32,u32,i64); harness-side hex printer (trusted, validated natively)', timeout=1500,
          functions=['<UniqueId as FromStr>::from_str'], finding_key='uniqueid_text_negative_random', finding_what='UniqueId with negative random part: 16 hex digits printed by Display are rejected by from_str'),
        H('rbx_types', 'k14_ref_parse_of_printed_form', 'K14.ref', 'Ref::from_str accepts every 32-digit lower-case hex form; none iff zero', 'all 2^128', timeout=1500, functions=['<Ref as FromStr>::from_str']),
        H('rbx_types', 'k14_ref_parse_injective', 'K14.ref.inj', 'distinct 128-bit values parse to distinct Refs', 'all pairs', timeout=1800, functions=['<Ref as FromStr>::from_str', '<Ref as PartialEq>::eq']),
        H('rbx_types', 'kx_vacuity_twin_types', 'KX.twin.types', 'vacuity twin (must fail)', '-', expect_fail=True),
    ]


ASSUMPTIONS = [
    'print side of Ref/UniqueId text forms is core::fmt (not encodable): replaced by a harness-side hex printer whose agreement with Display is checked natively on boundary values by the driver',
    'serde_json / bincode / rmp-serde round trips and the allValues.json contract are outside the claim (serde visitors, float text)',
    'Tags / MaterialColors blobs: see M obligations when present',
]
TRUSTED = ['rustc (Kani toolchain)', 'Kani 0.68 / CBMC 6.11 / cadical', 'harness-side hex printer']
RULE = 'each obligation is one Kani proof harness over kani::any() inputs decided by CBMC; non-trivial = kani::cover! witness satisfied'


def native_printer_validation():
    """Display of UniqueId/Ref on boundary values equals the harness printer's definition (zero padded lower-case two's complement hex)."""
    ob = C.Obligation('K14.printer', 'native validation of the harness-side printer against Display on boundary values', 'native', '12 boundary values')
    rc, out, dt = C.run([gen.tool('replayer'), 'print-forms'], timeout=60)
    ob.wall_s = dt
    if rc != 0:
        ob.status, ob.detail = C.INCONCLUSIVE, 'replayer print-forms failed: ' + out[-300:]
        return ob
    n = 0
    for line in out.strip().split('\n'):
        kind, fields, text = line.split('\t')
        vals = [int(x) for x in fields.split(',')]
        if kind == 'uniqueid':
            index, time_, random = vals
            want = '%016x%08x%08x' % (random & (2**64 - 1), time_, index)
        else:
            want = '%032x' % vals[0]
        if want != text:
            ob.status, ob.detail = C.INCONCLUSIVE, 'Display differs from the harness printer model on %s %s: %s vs %s' % (kind, fields, text, want)
            return ob
        n += 1
    ob.status, ob.queries, ob.vacuity = C.PASS, n, True
    ob.samples = [out.strip().split('\n')[0]]
    return ob


def run(tier, seed, t0, only=None):
    gen.build_tools()
    gen.write_kani_tables()
    hs = harnesses(tier)
    if only:
        hs = [h for h in hs if any(h.oid.startswith(o) for o in only)]
    obs = K.run_harnesses(hs, tier)
    if not only:
        obs.append(native_printer_validation())
    return C.finish('C17', tier, seed, obs, t0, ASSUMPTIONS, TRUSTED, RULE)
