"""C17 value encodings — K obligations: bit sets, BrickColor numbers, font enums, Ref/UniqueId parse side."""
from .. import common as C, gen, kani as K


def harnesses(tier):
    H = K.Harness
    return [
        H('rbx_types', 'k13_faces_bits', 'K13.faces', 'Faces::from_bits: identity on valid masks, None elsewhere, contains() = bit test', 'all 256 bytes', functions=['Faces::from_bits', 'Faces::bits', 'Faces::contains']),
        H('rbx_types', 'k13_axes_bits', 'K13.axes', 'Axes::from_bits likewise', 'all 256 bytes', functions=['Axes::from_bits', 'Axes::bits', 'Axes::contains']),
        H('rbx_types', 'k13_brickcolor_number', 'K13.brickcolor', 'BrickColor::from_number(n) as u16 = n', 'all 65536 numbers', functions=['BrickColor::from_number']),
        H('rbx_types', 'k13_brickcolor_variants', 'K13.brickcolor.complete', 'every BrickColor variant v: from_number(v as u16) = Some(v)', 'all variants of the enum (list regenerated from the make_brick_color! invocation)', functions=['BrickColor::from_number']),
        H('rbx_types', 'k13_brickcolor_palette', 'K13.brickcolor.palette', 'every BrickColor variant: to_color3uint8 = the colour of its own row', 'all variants', functions=['BrickColor::to_color3uint8']),
        H('rbx_types', 'k13_font_weight_style', 'K13.font', 'FontWeight::from_u16/as_u16 and FontStyle::from_u8/as_u8 are inverse', 'all u16 / u8', functions=['FontWeight::from_u16', 'FontWeight::as_u16', 'FontStyle::from_u8', 'FontStyle::as_u8']),
        H('rbx_types', 'k13_security_capabilities_bits', 'K13.seccap', 'SecurityCapabilities bits identity', 'all u64', functions=['SecurityCapabilities::from_bits', 'SecurityCapabilities::bits']),
        H('rbx_types', 'k14_uniqueid_parse_of_printed_form', 'K14.uniqueid', 'UniqueId::from_str accepts its own text form and returns the same fields', 'all (u32,u32,i64); harness-side hex printer (trusted, validated natively)', timeout=1500,
          functions=['<UniqueId as FromStr>::from_str'], finding_key='uniqueid_text_negative_random', finding_what='UniqueId with negative random part: 16 hex digits printed by Display are rejected by from_str'),
        H('rbx_types', 'k14_ref_parse_of_printed_form', 'K14.ref', 'Ref::from_str accepts every 32-digit lower-case hex form; none iff zero', 'all 2^128', timeout=1500, functions=['<Ref as FromStr>::from_str']),
        H('rbx_types', 'k14_ref_parse_injective', 'K14.ref.inj', 'distinct 128-bit values parse to distinct Refs', 'all pairs', timeout=1800, functions=['<Ref as FromStr>::from_str', '<Ref as PartialEq>::eq']),
        H('rbx_types', 'kx_vacuity_twin_types', 'KX.twin.types', 'vacuity twin (must fail)', '-', expect_fail=True),
    ]


ASSUMPTIONS = [
    'print side of Ref/UniqueId text forms is core::fmt (not encodable): replaced by a harness-side hex printer whose agreement with Display is checked natively on boundary values by the driver',
    'serde_json / bincode / rmp-serde round trips and the allValues.json contract are outside the claim (serde visitors, float text)',
    'Tags / MaterialColors blobs: MIR symbolic execution of encode/decode (M23), bounds as stated per obligation; Vec/BTreeMap/String::from_utf8/slice adapters are contract models',
]
TRUSTED = ['rustc (Kani toolchain)', 'Kani 0.68 / CBMC 6.11 / cadical', 'harness-side hex printer', 'rustc nightly MIR of rbx_types + vlib/mirsym interpreter and models + z3 (M23)']
RULE = 'each obligation is one Kani proof harness over kani::any() inputs decided by CBMC; non-trivial = kani::cover! witness satisfied'


def native_printer_validation():
    """Display of UniqueId/Ref on boundary values equals the harness printer's definition (zero padded lower-case two's complement hex)."""
    ob = C.Obligation('K14.printer', 'native validation of the harness-side printer against Display on boundary values', 'native', '12 boundary values')
    rc, out, dt = C.run([gen.tool('replayer'), 'print-forms'], timeout=60)
    ob.wall_s = dt
    if rc != 0:
        ob.status, ob.detail = C.INCONCLUSIVE, 'replayer print-forms failed: ' + out[-300:]
        return ob
    n = 0
    for line in out.strip().split('\n'):
        kind, fields, text = line.split('\t')
        vals = [int(x) for x in fields.split(',')]
        if kind == 'uniqueid':
            index, time_, random = vals
            want = '%016x%08x%08x' % (random & (2**64 - 1), time_, index)
        else:
            want = '%032x' % vals[0]
        if want != text:
            ob.status, ob.detail = C.INCONCLUSIVE, 'Display differs from the harness printer model on %s %s: %s vs %s' % (kind, fields, text, want)
            return ob
        n += 1
    ob.status, ob.queries, ob.vacuity = C.PASS, n, True
    ob.samples = [out.strip().split('\n')[0]]
    return ob


def blob_groups(tier):
    q = tier == 'quick'
    lens = sorted({len(r[1].encode()) for r in gen.brick_color_rows()})
    other = [n for n in (0, 1, max(lens) + 1) if n not in lens]
    return [
        dict(id='M24.brickcolor.names', desc='BrickColor::from_name(s) for a symbolic string s: the result is the first row of the make_brick_color! invocation named s (documented collision rule: Lilac, Rust, Gold, Deep orange resolve to their first entry), None when no row is named s; with K13.brickcolor this gives number -> name -> number for every number whose name is not shared',
             bounds='every byte string of each length that a palette name has (%d lengths, %d..%d bytes) and of lengths %s; rows regenerated from the macro invocation' % (len(lens), lens[0], lens[-1], other),
             cases=[dict(what='brick_name', len=n) for n in lens + other], budget=900),
        dict(id='M23.materialcolors', desc='MaterialColors blob: decode of every 69-byte blob gives the colours at their slots and re-encodes to the same 63 colour bytes; encode of a map with k set materials writes set colours / defaults at the right slots and decode(encode(m)) has the same colour for all 21 materials; other lengths are errors',
             bounds='every 69-byte blob; every choice of k <= %d set materials among 21 with symbolic colours; lengths 0, 68, 70' % (2 if q else 3),
             cases=[dict(what='len', len=n) for n in (0, 68, 70)] + [dict(what='dec')] + [dict(what='enc', k=k) for k in range(0, 3 if q else 4)], budget=900),
        dict(id='M23.tags', desc='Tags blob: decode splits at NUL, drops empty names, accepts exactly UTF-8 names and re-encodes to the names joined by NUL; encode/decode of NUL-free non-empty UTF-8 names is the identity',
             bounds='every blob of 0..%d bytes; name lists with lengths %s (all UTF-8 byte sequences)' % (4 if q else 5, '[], [1], [2], [1,1], [2,1], [1,2,1]'),
             cases=[dict(what='tags_dec', len=n) for n in range(0, 5 if q else 6)] + [dict(what='tags_enc', lens=l) for l in ([], [1], [2], [1, 1], [2, 1], [1, 2, 1], [3], [4])], budget=600),
    ]


def run(tier, seed, t0, only=None):
    gen.build_tools()
    gen.write_kani_tables()
    hs = harnesses(tier)
    if only:
        hs = [h for h in hs if any(h.oid.startswith(o) for o in only)]
    obs = K.run_harnesses(hs, tier) if hs else []
    bs = blob_groups(tier)
    if only:
        bs = [g for g in bs if any(g['id'].startswith(o) for o in only)]
    if bs:
        from ..mirsym import binrun, blobcheck, mirdump
        mirdump.dump('rbx_types')
        obs += binrun.run(bs, ('C17',), module=blobcheck, crates=['rbx_types'])
    if not only:
        obs.append(native_printer_validation())
    return C.finish('C17', tier, seed, obs, t0, ASSUMPTIONS, TRUSTED, RULE)
