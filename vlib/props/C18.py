"""C18 SharedString interning under concurrency: all interleavings of new/clone/drop programs over the real MIR."""
from .. import common as C, gen
from ..mirsym import ssrun, mirdump

ASSUMPTIONS = [
    'contents are symbolic and compared only for equality; blake3::hash is an injective uninterpreted function of the content (collision resistance assumed)',
    'Arc / Weak / Mutex / HashMap entry API are contract models; every Mutex::lock, guard drop, Arc::into_inner, Arc clone/drop, Weak::upgrade is a scheduling point',
    "granularity 'coarse' treats a critical section as atomic (sound for this code: the only count operation inside it is Weak::upgrade); granularity 'fine' switches at every point, with the stated preemption bound",
    'sequential consistency (the code uses a Mutex and Arc counts only)',
    'bounds: threads x operations per thread as stated per obligation; longer programs / more threads outside the claim',
]
TRUSTED = ['rustc nightly MIR of rbx_types::shared_string', 'vlib/mirsym interpreter + thread scheduler + Arc/Weak/Mutex models', 'z3', 'tools/replayer sstring (schedule forced on real threads through the cfg(rbx_dom_verif) yield hooks)']
RULE = ('each run = one (program per thread, schedule, content-equality pattern); programs, schedules and content equalities are all chosen by the path-forking executor '
        '(content equalities by z3 feasibility), stateless DFS until exhaustion; checked after every operation: bytes exposed, sharing of buffers among live equal handles, no deadlock/panic; at quiescence: empty intern table')


def groups(tier):
    g = [
        dict(id='M.C18.regress', desc='drop of the last handle racing with two new() of the same content (the schedule that exposed the fixed defect), all interleavings', bounds='2 threads, 3 ops, coarse',
             cfg=dict(programs=[[('drop', 0)], [('new', 'a'), ('new', 'b')]], pre=1, gran='coarse')),
        dict(id='M.C18.t2o2', desc='every program of 2 threads x 2 operations (new / clone / drop of own handles), every interleaving', bounds='2 threads x 2 ops, no pre-existing handle, coarse',
             cfg=dict(threads=2, ops=2, pre=0, gran='coarse', allow_stop=False)),
        dict(id='M.C18.t2o2.pre', desc='same with one pre-existing handle owned by thread 0', bounds='2 threads x 2 ops, 1 pre-existing handle, coarse',
             cfg=dict(threads=2, ops=2, pre=1, gran='coarse', allow_stop=False), budget=900),
        dict(id='M.C18.fine', desc='fine granularity (switch at every synchronisation call) with at most 2 preemptions', bounds='2 threads x 2 ops, 1 pre-existing handle, fine, <=2 preemptions',
             cfg=dict(threads=2, ops=2, pre=1, gran='fine', pb=2, allow_stop=False), budget=900),
    ]
    if tier == 'thorough':
        # (all programs of 2x3 or 3x2 operations under every interleaving do not finish: > 10^6 runs each; measured, see DESIGN.md 10.5.
        #  The thorough tier deepens along the axes that do finish.)
        P = lambda *ops: [tuple(o) for o in ops]
        g += [
            dict(id='M.C18.fine3', desc='fine granularity, at most 3 preemptions', bounds='2 threads x 2 ops, 1 pre-existing handle, fine, <=3 preemptions', cfg=dict(threads=2, ops=2, pre=1, gran='fine', pb=3, allow_stop=False), budget=3000),
            dict(id='M.C18.fine4', desc='fine granularity, at most 4 preemptions', bounds='2 threads x 2 ops, 1 pre-existing handle, fine, <=4 preemptions', cfg=dict(threads=2, ops=2, pre=1, gran='fine', pb=4, allow_stop=False), budget=3000),
            dict(id='M.C18.t3o1', desc='3 threads x 1 operation, every program and interleaving', bounds='3 threads x 1 op, 1 pre-existing handle, coarse', cfg=dict(threads=3, ops=1, pre=1, gran='coarse', allow_stop=False), budget=3000),
            dict(id='M.C18.t3.newdrop', desc='3 threads each creating and dropping a handle (possibly equal contents), at most 3 preemptions', bounds='3 threads x (new, drop), coarse, <=3 preemptions',
                 cfg=dict(programs=[P(('new', 'a'), ('drop', 0)), P(('new', 'b'), ('drop', 0)), P(('new', 'c'), ('drop', 0))], pre=0, gran='coarse', pb=3), budget=3000),
            dict(id='M.C18.p3.churn', desc='2 threads x 3 operations: create / drop / create against create / create / drop, every interleaving', bounds='fixed programs, coarse',
                 cfg=dict(programs=[P(('new', 'a'), ('drop', 0), ('new', 'b')), P(('new', 'c'), ('new', 'd'), ('drop', 0))], pre=0, gran='coarse'), budget=3000),
            dict(id='M.C18.p3.clone', desc='2 threads x 3 operations: clone / drop / drop of a pre-existing handle against create / drop / create', bounds='fixed programs, 1 pre-existing handle, coarse',
                 cfg=dict(programs=[P(('clone', 0), ('drop', 0), ('drop', 0)), P(('new', 'c'), ('drop', 0), ('new', 'd'))], pre=1, gran='coarse'), budget=3000),
        ]
    return g


def run(tier, seed, t0, only=None):
    gen.build_tools()
    mirdump.dump('rbx_types')
    gs = groups(tier)
    if only:
        gs = [g for g in gs if any(g['id'].startswith(o) for o in only)]
    obs = ssrun.run(gs)
    obs.append(ssrun.twin())
    return C.finish('C18', tier, seed, obs, t0, ASSUMPTIONS, TRUSTED, RULE)
