"""Obligation groups of the rbx_binary byte-level engine (vlib/mirsym/bincheck.py), shared by C13 / C04 / C03."""
import math
from ..mirsym import bincheck as B


def type_ids():
    from .. import gen
    return sorted(set(gen.binary_type_enum().values()))


def c13_groups(tier):
    q = tier == 'quick'
    nchunk = 19 if q else 22
    mini = len(B.mini_file())
    tids = type_ids()
    body = [('META', 4), ('META', 12), ('SSTR', 8), ('INST', 9), ('INST', 14), ('PRNT', 13)] + ([] if q else [('SSTR', 28), ('META', 16), ('INST', 17), ('PRNT', 17)])
    g = [
        dict(id='M14.chunk', desc='Chunk::decode on arbitrary bytes: Ok or Err, never a panic; buffer requests bounded by the input; Ok only with a complete 16-byte header and payload',
             bounds='every input of 0..%d bytes (all bytes symbolic); lz4/zstd decompressors are contract stubs (arbitrary output of the announced length, or an error)' % nchunk,
             cases=[dict(what='chunk', len=n) for n in range(0, nchunk + 1)], budget=900),
        dict(id='M15.body', desc='Deserializer::deserialize on a file whose META / SSTR / INST / PRNT chunk body is arbitrary: Ok or Err, no panic, allocation bounded',
             bounds='uncompressed chunk with %s arbitrary body bytes between a valid header and END' % ', '.join('%s:%d' % b for b in body),
             cases=[dict(what='file', gen='chunkbody', kind=k, n=n, tag='%s%d' % (k, n)) for k, n in body] +
                   [dict(what='file', gen='chunkbody', kind='PRNT', n=13, with_inst=True, tag='PRNT13i'), dict(what='file', gen='header', tag='header')], budget=900),
        dict(id='M15.prop', desc='same for PROP chunks: one declared instance, property of every wire type id the reader knows, value bytes arbitrary',
             bounds='%d type ids x %s arbitrary value bytes' % (len(tids), '{0, 5, 9}' if q else '{0, 5, 9, 13, 17}'),
             cases=[dict(what='file', gen='propfuzz', tid=t, n=n, tag='PROP%02x' % t) for t in tids for n in ((0, 5, 9) if q else (0, 5, 9, 13, 17))], budget=600),
        dict(id='M17.prefix', desc='every strict prefix of a valid file (and the file without its END chunk, followed by arbitrary bytes) is rejected; the whole file is accepted',
             bounds='%d-byte file with META, INST, PRNT, END: all %d prefixes; END replaced by 0..3 arbitrary bytes' % (mini, mini),
             cases=[dict(what='file', gen='prefix', k=k, tag='prefix') for k in range(0, mini)] + [dict(what='file', gen='whole', tag='whole')] +
                   [dict(what='file', gen='noend', n=n, tag='noend') for n in range(0, 4)], budget=300),
        dict(id='M18.chunk_sink', desc='ChunkBuilder::dump into a sink with room for k bytes: Err unless everything was written (no success on a short write), no panic',
             bounds='uncompressed chunk with 4 symbolic body bytes, every k in 0..21',
             cases=[dict(what='dump', len=4, room=k) for k in range(0, 22)], budget=120),
    ]
    return g


def c13_ser_groups(tier):
    rooms = list(range(0, 40, 3)) + [-k for k in range(1, 30)]
    return [dict(id='M18.ser_sink', desc='Serializer::serialize (whole file, one instance with one property) into a sink with room for k bytes returns an error for every k below the file size - nothing is held back in a buffer whose flush error is lost',
                 bounds='k in 0..39 step 3 and the last 29 offsets of the file', cases=[dict(what='sersink', room=r) for r in rooms], budget=300)]


KIND_OPTS = {
    'String': {'len': [1, 2]}, 'NumberSequence': {'len': [1, 2]}, 'ColorSequence': {'len': [1, 2]}, 'PhysicalProperties': {'custom': [True, False]},
    'CFrame': {'rot': [0, 2]}, 'BrickColor': {'numbers': [194, 1032]}, 'Font': {'weight': [700, 400], 'style': [1, 0], 'face': [1, 0]}, 'OptionalCFrame': {'present': [True, False]},
}


KIND_OPTS3 = {
    'String': {'len': [0, 3, 1]}, 'NumberSequence': {'len': [0, 3, 1]}, 'ColorSequence': {'len': [2, 0, 1]}, 'PhysicalProperties': {'custom': [False, True, True]},
    'CFrame': {'rot': [0, 0, 0]}, 'BrickColor': {'numbers': [1, 365, 1001]}, 'Font': {'weight': [100, 900, 400], 'style': [0, 1, 0], 'face': [0, 1, 0]}, 'OptionalCFrame': {'present': [False, True, True]},
}


def c04_groups(tier):
    q = tier == 'quick'
    # siblings get distinct classes where their order matters (instances are told apart by class: the files carry no Name column)
    shapes = [((-1,), ['A']), ((-1, 0), ['A', 'B']), ((-1, -1), ['A', 'A']), ((-1, -1), ['B', 'A']), ((-1, 0, 0), ['A', 'B', 'B']), ((-1, 0, 0), ['A', 'C', 'B'])]
    if not q:
        shapes += [((-1, 0, 1), ['A', 'B', 'A']), ((1, -1, 1), ['A', 'B', 'C'])]
    kinds = list(B.FIELDS)
    g = [
        dict(id='M8.chunk', desc='Chunk::decode accepts every well-formed uncompressed chunk and returns exactly its name and bytes (framing per docs/binary.md "Chunks")',
             bounds='every input of 16..20 bytes', cases=[dict(what='chunk', len=n) for n in range(16, 21)], budget=600),
        compressed_group(),
        dict(id='M8.tree', desc='a spec-conformant file for a forest decodes to that forest whatever the referent numbering, class ids, INST chunk order, PRNT row order, META / unknown chunks / service format',
             bounds='forests %s; referents and class ids symbolic (distinct, < 2^30); all INST / PRNT orders' % [list(s) for s, _ in shapes],
             cases=[dict(what='tree', shape=s, classes=c, meta=True, unknown=len(set(c)) < 3, service=len(set(c)) < 3, row=r) for s, c in shapes for r in range(math.factorial(len(s)))], budget=1500),
        dict(id='M9.prop', desc='PROP column of each wire type written by a spec encoder (docs/binary.md) decodes to bit-identical values under the given name, for unknown classes',
             bounds='2 instances, every value symbolic (all bit patterns), symbolic class id; two classes with symbolic ids in every INST / PROP chunk order; kinds: %s' % ', '.join(kinds),
             cases=[dict(what='prop', kind=k, n=2, opts=KIND_OPTS.get(k, {})) for k in kinds if k != 'Content' and k not in B.NOSPEC] +
                   [dict(what='prop', kind='Content', n=len(t), opts={'types': t}) for t in ([0, 1], [1, 1], [2, 2], [2, 1, 2])] + [dict(what='prop2')], budget=600),
        long_group(),
        dict(id='M9.widen', desc='Int32 column for a property the database declares Int64, Float32 column for one declared Float64: loaded widened exactly (NaN stays NaN)',
             bounds='2 instances, all bit patterns; custom database with class A, property P',
             cases=[dict(what='prop', kind=k, n=2, opts={'declared': d}, classes={'A': dict(properties={'P': dict(variant_type=d)})}) for k, d in (('Int32', 'Int64'), ('Float32', 'Float64'), ('Int32', 'Int32'), ('Float64', 'Float64'))], budget=300),
        dict(id='M9.skip', desc='a PROP chunk that ends after its name, or carries a type id the reader does not know (with arbitrary bytes after it), is skipped and the other property is unaffected',
             bounds='2 instances; skipped chunk before or after the real one; every unknown type byte, 3 arbitrary trailing bytes',
             cases=[dict(what='prop', kind='Int32', n=2, extra=x) for x in ('short', 'unknown_type')], budget=300),
    ]
    return g


def c03_groups(tier):
    return [
        dict(id='M4.chunk', desc='ChunkBuilder::dump (uncompressed) writes name, compressed length 0, length, reserved 0, data as docs/binary.md specifies',
             bounds='0..6 symbolic body bytes, sink with room for everything', cases=[dict(what='dump', len=n, room=64) for n in range(0, 7)], budget=120),
        dict(id='M4.compressed', desc='ChunkBuilder::dump with LZ4 / Zstandard: header fields and body are consistent (compressed length = number of body bytes = the compressor output; or 0 and the raw data), whatever the compressor returns',
             bounds='2..5 symbolic data bytes; compressor = contract stub returning arbitrary bytes of length 1, n-1, n, n+1 or an error',
             cases=[dict(what='dump', len=n, room=64, comp=c) for n in (2, 3, 5) for c in ('Lz4', 'Zstd')], budget=120),
    ]


def boundary_sizes(files, crates=None):
    """sizes at which length-dependent obligations are additionally run: 65 (beyond the default loop bound) and c, c+1 for
    every constant c in (16, 8192] that the reader code in `files` uses (vlib/mirsym/mining.py)"""
    from ..mirsym import binrun, mining
    from ..mirsym.program import Program
    from ..mirsym import mirdump
    prog = Program(crates, mirdump.MIR_DIR) if crates else binrun._load()
    consts = mining.mined_sizes(prog, files)
    return sorted({65} | {c for c in consts} | {c + 1 for c in consts} | {c - 1 for c in consts}), consts


def long_group():
    sizes, consts = boundary_sizes(['deserializer/state.rs', 'rbx_binary/src/core.rs', 'rbx_binary/src/chunk.rs', 'deserializer/mod.rs'])
    return dict(id='M9.long', desc='String / NumberSequence / ColorSequence columns with lengths at the boundary constants of the reader code (caps, limits) decode completely and bit-identically',
                bounds='1 instance; lengths %s (65 and c, c+1 for the constants %s mined from the MIR of the reader)' % (sizes, consts),
                cases=[dict(what='prop', kind=k, n=1, opts={'len': [n]}, range_limit=n + 8) for k in ('String', 'NumberSequence', 'ColorSequence') for n in sizes], budget=900)


SER_TREES = [
    dict(shape=[-1, 0], classes=['DataModel', 'A']),
    dict(shape=[-1, 0, 0], classes=['DataModel', 'B', 'A']),
    dict(shape=[-1, 0, 1, 1], classes=['DataModel', 'A', 'B', 'A']),
    dict(shape=[-1, 0, 1, 2], classes=['DataModel', 'A', 'A', 'B']),
    dict(shape=[-1, 0, 0, 2], classes=['DataModel', 'A', 'B', 'A'], refs={1: 3, 3: 'none', 2: 'outside'}),
    dict(shape=[-1, 0, 0, 2], classes=['DataModel', 'A', 'B', 'A'], refs={1: 2, 3: 1}, roots=[2]),
    dict(shape=[-1, 0, 0, 1, 1, 2], classes=['DataModel', 'B', 'A', 'C', 'A', 'B'], refs={3: 5, 5: 3, 4: 4}),
    dict(shape=[-1, 0, 1, 0, 3], classes=['DataModel', 'A', 'A', 'A', 'B'], refs={2: 4, 4: 1}, roots=[3, 1]),
    # Content values: objects inside / outside the written set / null, a URI, none
    dict(shape=[-1, 0, 0, 2, 2], classes=['DataModel', 'A', 'A', 'A', 'A'], crefs={1: 3, 2: 'outside', 3: ('uri', 0x61), 4: 'none'}),
    dict(shape=[-1, 0, 0, 2], classes=['DataModel', 'A', 'B', 'A'], crefs={1: 2, 3: 1}, roots=[2]),
    # service classes (object format 1: one marker byte per instance)
    dict(shape=[-1, 0, 0, 0, 1], classes=['DataModel', 'S', 'S', 'A', 'S'], services=['S'], db={'S': dict(properties={}, tags=['Service'])}),
]


def ser_groups(tier, prop):
    """serializer-side obligations (vlib/mirsym/sercheck.py); prop = 'C03' (written bytes vs. docs/binary.md) or 'C01' (write + read)"""
    kinds = [k for k in B.FIELDS if k not in ('Content', 'Ref') and not (prop == 'C03' and k in B.NOSPEC)]
    what = 'written file = what docs/binary.md specifies' if prop == 'C03' else 'write then read gives back the same DOM'
    return [
        dict(id='M3.values' if prop == 'C03' else 'M1.values',
             desc='Serializer::serialize on 2 instances carrying one property of each value type, all value bits symbolic: ' +
                  ('header counts, one INST chunk, one PROP chunk per property with exactly one value per instance, PRNT, END; the Values section equals the documented encoding of the values' if prop == 'C03'
                   else 'the real reader returns the same names, classes and bit-identical values'),
             bounds='unknown class, compression off, 2 instances; kinds: %s (CFrame: general matrices, entries of magnitude >= 2)' % ', '.join(kinds),
             cases=[dict(what='ser', kind=k, n=2, opts=KIND_OPTS.get(k, {}), prop=prop) for k in kinds] +
                   ([] if tier == 'quick' else [dict(what='ser', kind=k, n=3, opts=KIND_OPTS3.get(k, {}), prop=prop) for k in kinds]), budget=900),
        ser_long_group(prop),
        dict(id='M3.defaults' if prop == 'C03' else 'M1.defaults',
             desc='one instance carries the property, the other does not: ' + ('the column still has exactly one value per instance and is a valid encoding (the missing one is a constant default)' if prop == 'C03'
                                                                              else 'the carrier reads back its value bit-identically; the other gains a value of the same type (documented normalisation)'),
             bounds='2%s instances, fixed-size kinds, either instance lacking the property' % ('' if tier == 'quick' else '-3'),
             cases=[dict(what='ser', kind=k, n=n_, missing=m_, prop=prop) for k in ('Bool', 'Int32', 'Float32', 'Float64', 'Int64', 'Enum', 'UDim2', 'Ray', 'Vector3', 'Vector3int16', 'Color3', 'Color3uint8', 'NumberRange', 'Rect')
                    for n_, m_ in ([(2, [0]), (2, [1])] + ([] if tier == 'quick' else [(3, [0, 2]), (3, [1])]))], budget=600),
        dict(id='M3.sstr' if prop == 'C03' else 'M1.sstr',
             desc='SharedString columns: ' + ('exactly one SSTR chunk before the INST chunks, entries pairwise distinct for every value of the symbolic contents, every column index points at an entry with the value\'s content' if prop == 'C03'
                                              else 'contents read back unchanged; instances lacking the property gain the (empty) default'),
             bounds='1-2 instances, 1-2 SharedString properties, contents of 0-1 symbolic bytes (equal and different contents both covered)',
             cases=[dict(what='sstr', insts=i_, prop=prop) for i_ in ([{'S': 1}], [{'S': 1}, {'S': 1}], [{'S': 1}, {}], [{'S': 1}, {'T': 1}], [{'S': 0}, {'S': 1}], [{'S': 1, 'T': 1}, {'T': 1}])], budget=600),
        dict(id='M3.tree' if prop == 'C03' else 'M2.tree',
             desc='forests with several classes, Ref properties (to written instances, outside the written set, null) and sub-selections of roots: ' +
                  ('unique class ids, every instance once in INST and PRNT, children before parents, sibling order, referent values of Ref properties' if prop == 'C03'
                   else 'root order, child order, names, classes survive; references are rewired to the new instances or null'),
             bounds='%d forests of <= 5 instances, symbolic Refs' % len(SER_TREES),
             cases=[dict(what='sertree', prop=prop, **t) for t in SER_TREES], budget=600),
    ]


def compressed_group():
    sizes, consts = boundary_sizes(['rbx_binary/src/chunk.rs', 'deserializer/mod.rs'])
    us = sorted({1, 4} | set(sizes))
    return dict(id='M8.compressed', desc='Chunk::decode on compressed chunks: whenever the decompressor (contract stub: fails, or returns the announced number of arbitrary bytes) succeeds, the chunk is accepted with exactly those bytes; no other reason to reject a well-formed compressed chunk',
                bounds='compressed length 1 or 5 (symbolic bytes: LZ4 / Zstandard chosen by the magic check), announced length in %s (incl. c, c+1 for the constants %s of chunk.rs)' % (us, consts),
                cases=[dict(what='cchunk', clen=c, ulen=u, range_limit=u + 8) for c in (1, 5) for u in us], budget=600)


def ser_long_group(prop):
    sizes, consts = boundary_sizes(['serializer/state.rs', 'deserializer/state.rs', 'rbx_binary/src/core.rs', 'rbx_binary/src/chunk.rs'])
    return dict(id='M3.long' if prop == 'C03' else 'M1.long',
                desc='String / NumberSequence / ColorSequence values with lengths at the boundary constants of the writer and reader code: ' + ('written completely, as specified' if prop == 'C03' else 'read back completely and bit-identically'),
                bounds='1 instance; lengths %s (65 and c, c+1 for the constants %s mined from the MIR)' % (sizes, consts),
                cases=[dict(what='ser', kind=k, n=1, opts={'len': [n]}, range_limit=n + 8, prop=prop) for k in ('String', 'NumberSequence', 'ColorSequence') for n in sizes], budget=900)
