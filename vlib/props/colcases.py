"""C08 case generator: a custom one-class reflection database exercising canonical / alias / serializes-as / migrating
properties and defaults, and same-class instance multisets over it in every sibling order."""
import itertools, struct


def f32(x):
    return struct.unpack('<I', struct.pack('<f', x))[0]


DB = {'Base': dict(properties={}, defaults={'Val': ('Int32', {'v': 3}), 'ScreenInsets': ('Enum', {'v': 5})}),
      'K': dict(
    superclass='Base',
    properties={
        'Val': dict(variant_type='Int32'),
        'Size': dict(variant_type='Vector3', kind=('Canonical', ('SerializesAs', 'size'))),
        'size': dict(variant_type='Vector3', kind=('Alias', 'Size')),
        'ScreenInsets': dict(enum_type='ScreenInsets'),
        'Insets': dict(enum_type='ScreenInsets', kind=('Alias', 'ScreenInsets')),
        'IgnoreGuiInset': dict(variant_type='Bool', kind=('Canonical', ('Migrate', 'ScreenInsets', 'IgnoreGuiInsetToScreenInsets'))),
        'Flag': dict(variant_type='Bool'),
    },
    defaults={
        'Val': ('Int32', {'v': 7}),           # overrides the inherited default 3
        'Size': ('Vector3', {'x': f32(4.0), 'y': f32(1.0), 'z': f32(2.0)}),
    })}                                      # ScreenInsets: inherited default 5

# per-instance shapes: (properties given, what must come back for the properties of the column set)
SHAPES = {
    'val':      ([('Val', 'Int32', '{L}')], {'Val': ('val', '{L}', 'Int32')}),
    'Size':     ([('Size', 'Vector3', '{L}')], {'Size': ('val', '{L}', 'Vector3')}),
    'size':     ([('size', 'Vector3', '{L}')], {'Size': ('val', '{L}', 'Vector3')}),
    'insets':   ([('ScreenInsets', 'Enum', '{L}')], {'ScreenInsets': ('val', '{L}', 'Enum')}),
    'ainsets':  ([('Insets', 'Enum', '{L}')], {'ScreenInsets': ('val', '{L}', 'Enum')}),
    'legacy':   ([('IgnoreGuiInset', 'Bool', '{L}')], {'ScreenInsets': ('migrated_inset', '{L}')}),
    'both':     ([('IgnoreGuiInset', 'Bool', '{L}b'), ('ScreenInsets', 'Enum', '{L}')], {'ScreenInsets': ('val', '{L}', 'Enum')}),
    'both_r':   ([('ScreenInsets', 'Enum', '{L}'), ('IgnoreGuiInset', 'Bool', '{L}b')], {'ScreenInsets': ('val', '{L}', 'Enum')}),
    'flag':     ([('Flag', 'Bool', '{L}')], {'Flag': ('val', '{L}', 'Bool')}),
    'none':     ([], {}),
}
DEFAULTS = {'Val': ('default', 'Int32', {'v': 7}), 'Size': ('default', 'Vector3', DB['K']['defaults']['Size'][1]),
            'ScreenInsets': ('default', 'Enum', {'v': 5}), 'Flag': ('default', 'Bool', None)}


def make(shapes):
    insts, expect = [], []
    for i, sh in enumerate(shapes):
        props, exp = SHAPES[sh]
        lab = 'v%d' % i
        insts.append([(a, b, c.replace('{L}', lab)) for a, b, c in props])
        expect.append({k: tuple(x.replace('{L}', lab) if isinstance(x, str) else x for x in v) for k, v in exp.items()})
    cols = set()
    for e in expect:
        cols |= set(e)
    for e in expect:
        for c in cols:
            e.setdefault(c, DEFAULTS[c])
    return dict(what='cols', cls='K', db=DB, insts=insts, expect=expect, tag='+'.join(shapes))


def cases(tier):
    multisets = [('val', 'none'), ('Size', 'size'), ('size', 'none'), ('Size', 'none'), ('legacy', 'insets'), ('legacy', 'none'), ('legacy', 'legacy'), ('flag', 'none'), ('val', 'size'), ('legacy', 'ainsets'), ('insets', 'ainsets'), ('both',), ('both_r',), ('both', 'legacy'), ('both_r', 'none')]
    if tier != 'quick':
        multisets += [('legacy', 'insets', 'none'), ('Size', 'size', 'none'), ('legacy', 'size', 'val'), ('insets', 'legacy', 'legacy')]
    out = []
    for ms in multisets:
        for perm in sorted(set(itertools.permutations(ms))):
            out.append(make(perm))
    return out
