"""Shared runner for the WeakDom properties C09-C12 (engine M on rbx_dom_weak/src/dom.rs)."""
from .. import common as C, gen
from ..mirsym import domrun

ALL_OPS = ['insert', 'destroy', 'transfer_within', 'transfer', 'clone_within', 'clone_into_external', 'clone_multiple_into_external']
CLONES = ['clone_within', 'clone_into_external', 'clone_multiple_into_external']

ASSUMPTIONS = [
    'A1: distinct instances have distinct Refs process-wide: the DOMs of a two-DOM operation have disjoint Ref sets and an incoming builder uses Refs not present anywhere (true for Ref::new; with_referent can break it: outside)',
    'A2: Ref::new / UniqueId::now return values different from every Ref / UniqueId value in the state (contract stubs; 2^-128 collision ignored)',
    'Ref is modelled as an opaque identity (equality and none-test only); the repository code uses nothing else of it',
    'pre-state = every forest shape of the stated size with symbolic pairwise-distinct Refs, symbolic names/classes/property values; children listed in label order (every ordered forest is isomorphic to such a labelling)',
    'documented preconditions are assumed before each call; clone_multiple_into_external additionally assumes pairwise disjoint requested subtrees',
    'histories of any length are covered by the inductive step as long as every DOM stays within the stated size; larger DOMs are outside the claim',
    'hash-container iteration order: insertion order unless the obligation says hash-order=perm (then every order)',
]
TRUSTED = ['rustc nightly MIR (-Zunpretty=mir) of rbx_dom_weak and rbx_types', 'vlib/mirsym interpreter and its container contract models (listed per obligation under stubs)', 'z3 4.x (python API)', 'tools/replayer (native confirmation of counterexamples)']
RULE = ('each case = (operation, pre-state forest shape(s), property configuration); all feasible MIR paths of the real operation are explored '
        'with symbolic Refs/arguments, forking on solver-feasible branches; postconditions are decided per path by z3 (path condition and negated postcondition unsat). '
        'non-trivial = obligation with at least one completed in-precondition path and all postcondition queries discharged')


def run(prop, groups, tier, seed, t0, extra_obs=()):
    gen.build_tools()
    dt = domrun.refresh_mir()
    obs = domrun.run(groups, prop)
    obs.append(domrun.twin(prop))
    obs.extend(extra_obs)
    return C.finish(prop, tier, seed, obs, t0, ASSUMPTIONS, TRUSTED, RULE, extra_cov={'mir_regenerated_s': round(dt, 1)})
