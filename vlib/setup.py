"""setup_cmd: build everything the checks need from files on disk (offline). Checks rebuild incrementally afterwards."""
import os, shutil, subprocess, sys, time
from . import common as C, gen


def main():
    t0 = time.time()
    C.ensure_dirs()
    for tool_name in ('cargo', 'cargo-kani', 'cbmc', 'z3', 'cvc5', 'python3-vt'):
        if not shutil.which(tool_name):
            print('setup: missing tool', tool_name)
            return 1
    gen.build_tools()
    print('setup: native tools built (%.0fs)' % (time.time() - t0))
    gen.write_kani_tables()
    from . import kani as K
    K.ensure_playback_files(['rbx_types', 'rbx_binary', 'rbx_reflection'])
    res = K.prebuild(['rbx_types', 'rbx_binary', 'rbx_reflection'])
    for c, (rc, out, dt) in res.items():
        print('setup: kani codegen %s rc=%d %.0fs' % (c, rc, dt))
        if rc != 0:
            print(out[-1500:])
            return 1
    try:
        from .mirsym import mirdump
        for crate in mirdump.CRATES:
            p, dt = mirdump.dump(crate)
            print('setup: MIR %s -> %s (%.0fs)' % (crate, p, dt))
    except ImportError:
        pass
    print('setup: done in %.0fs' % (time.time() - t0))
    return 0
