"""Engine Z: the bundled reflection database (as decoded by the real crates: tools/dbdump) and documentation tables
as SMT-LIB define-fun tables; closure facts are decided as `unsat` of their negation over symbolic indices, by z3
and cvc5 (cross-check)."""
import json, os, re, subprocess, time
from . import common as C, gen

VARIANT_TYPES = ['Axes', 'BinaryString', 'Bool', 'BrickColor', 'CFrame', 'Color3', 'Color3uint8', 'ColorSequence', 'ContentId', 'Enum', 'Faces', 'Float32',
                 'Float64', 'Int32', 'Int64', 'NumberRange', 'NumberSequence', 'PhysicalProperties', 'Ray', 'Rect', 'Ref', 'Region3', 'Region3int16',
                 'SharedString', 'String', 'UDim', 'UDim2', 'Vector2', 'Vector2int16', 'Vector3', 'Vector3int16', 'OptionalCFrame', 'Tags', 'Attributes', 'Font',
                 'UniqueId', 'MaterialColors', 'SecurityCapabilities', 'EnumItem', 'Content']
MIGRATION_OUT = {'FontToFontFace': 'Font', 'BrickColorToColor': 'Color3uint8', 'IgnoreGuiInsetToScreenInsets': 'Enum', 'ContentIdToContent': 'Content'}
MIGRATION_IN = {'FontToFontFace': 'Enum', 'BrickColorToColor': 'BrickColor', 'IgnoreGuiInsetToScreenInsets': 'Bool', 'ContentIdToContent': 'ContentId'}
SER = {'Serializes': 0, 'DoesNotSerialize': 1, 'SerializesAs': 2, 'Migrate': 3}


class Tables:
    def __init__(self, db):
        self.db = db
        self.names = {}           # string -> int (>=1)
        self.rev = {}
        C_ = db['Classes']
        self.classes = sorted(C_)
        self.cid = {c: i + 1 for i, c in enumerate(self.classes)}
        self.props = []           # (class, name, descriptor)
        for c in self.classes:
            for pn in sorted(C_[c]['Properties']):
                self.props.append((c, pn, C_[c]['Properties'][pn]))
        self.defaults = []
        for c in self.classes:
            for pn in sorted(C_[c]['DefaultProperties']):
                self.defaults.append((c, pn, C_[c]['DefaultProperties'][pn]))
        self.enums = sorted(db['Enums'])
        for c in self.classes:
            self.intern(c)
        self.vt = {v: i + 1 for i, v in enumerate(VARIANT_TYPES)}

    def intern(self, s):
        if s not in self.names:
            self.names[s] = len(self.names) + 1
            self.rev[self.names[s]] = s
        return self.names[s]

    @staticmethod
    def lit(v):
        return str(v) if v >= 0 else '(- %d)' % -v

    @staticmethod
    def table(name, args, rows, default=None):
        """uninterpreted function + one ground fact per row.  Closed-world knowledge about absent (class, name) pairs is
        supplied per lookup instance by Q.app (descriptors of one class are numbered contiguously)."""
        out = ['(declare-fun %s (%s) Int)' % (name, ' '.join('Int' for _ in args))]
        for key, val in rows:
            out.append('(assert (= (%s %s) %s))' % (name, ' '.join(Tables.lit(k) for k in key), Tables.lit(val)))
        if default is not None and len(args) == 1:
            out.append('(assert (= (%s 0) %s))' % (name, Tables.lit(int(default))))
        return '\n'.join(out)

    def smt(self):
        db = self.db
        C_ = db['Classes']
        out = []
        self.parts = {}
        sup, kind, ser, target, dkind, dtype, lookup, mig, pclass, pname = [], [], [], [], [], [], [], [], [], []
        for i, (c, pn, p) in enumerate(self.props):
            pid = i + 1
            n = self.intern(pn)
            pclass.append(((pid,), self.cid[c]))
            pname.append(((pid,), n))
            lookup.append(((self.cid[c], n), pid))
            k = p['Kind']
            if 'Alias' in k:
                kind.append(((pid,), 1))
                target.append(((pid,), self.intern(k['Alias']['AliasFor'])))
                ser.append(((pid,), -1))
            else:
                kind.append(((pid,), 0))
                s = k['Canonical']['Serialization']
                if isinstance(s, str):
                    ser.append(((pid,), SER[s]))
                elif 'SerializesAs' in s:
                    ser.append(((pid,), 2))
                    target.append(((pid,), self.intern(s['SerializesAs'])))
                elif 'Migrate' in s:
                    ser.append(((pid,), 3))
                    target.append(((pid,), self.intern(s['Migrate']['To'])))
                    mig.append(((pid,), self.vt[MIGRATION_OUT[s['Migrate']['Migration']]]))
                else:
                    ser.append(((pid,), 9))
            dt = p['DataType']
            if 'Value' in dt:
                dkind.append(((pid,), 0))
                dtype.append(((pid,), self.vt.get(dt['Value'], 99)))
            else:
                dkind.append(((pid,), 1))
                dtype.append(((pid,), self.intern('enum:' + dt['Enum'])))
        for c in self.classes:
            s = C_[c].get('Superclass')
            if s:
                sup.append(((self.cid[c],), self.cid.get(s, -1)))       # -1: dangling superclass name
        dcls, dnm, dty = [], [], []
        for i, (c, pn, v) in enumerate(self.defaults):
            did = i + 1
            dcls.append(((did,), self.cid[c]))
            dnm.append(((did,), self.intern(pn)))
            dty.append(((did,), self.vt.get(list(v.keys())[0], 98)))
        enum_ids = [((self.intern('enum:' + e),), 1) for e in self.enums]
        have = {k[0] for k, _ in sup}
        sup += [((self.cid[c],), 0) for c in self.classes if self.cid[c] not in have]
        sup.append(((0,), 0))
        have = {k[0] for k, _ in target}
        target += [((i + 1,), 0) for i in range(len(self.props)) if i + 1 not in have]
        have = {k[0] for k, _ in mig}
        mig += [((i + 1,), 0) for i in range(len(self.props)) if i + 1 not in have]
        P = self.parts
        P['superclass'] = self.table('superclass', ['c'], sup)
        P['p_class'] = self.table('p_class', ['p'], pclass)
        P['p_name'] = self.table('p_name', ['p'], pname)
        P['p_kind'] = self.table('p_kind', ['p'], kind, '-1')
        P['p_ser'] = self.table('p_ser', ['p'], ser, '-1')
        P['p_target'] = self.table('p_target', ['p'], target)
        P['p_dkind'] = self.table('p_dkind', ['p'], dkind, '-1')
        P['p_dtype'] = self.table('p_dtype', ['p'], dtype)
        P['p_migout'] = self.table('p_migout', ['p'], mig)
        P['lookup'] = self.table('lookup', ['c', 'n'], lookup)
        first, count = {}, {}
        for i, (c, pn, p) in enumerate(self.props):
            first.setdefault(self.cid[c], i + 1)
            count[self.cid[c]] = count.get(self.cid[c], 0) + 1
        P['cls_first'] = self.table('cls_first', ['c'], [((self.cid[c],), first.get(self.cid[c], 0)) for c in self.classes] + [((0,), 0)])
        P['cls_count'] = self.table('cls_count', ['c'], [((self.cid[c],), count.get(self.cid[c], 0)) for c in self.classes] + [((0,), 0)])
        self.max_count = max(count.values())
        P['d_class'] = self.table('d_class', ['d'], dcls)
        P['d_name'] = self.table('d_name', ['d'], dnm)
        P['d_type'] = self.table('d_type', ['d'], dty)
        P['enum_exists'] = self.table('enum_exists', ['e'], enum_ids)
        nC, nP, nD = len(self.classes), len(self.props), len(self.defaults)
        out.append('(define-fun is_class ((c Int)) Bool (and (>= c 1) (<= c %d)))' % nC)
        out.append('(define-fun is_prop ((p Int)) Bool (and (>= p 1) (<= p %d)))' % nP)
        out.append('(define-fun is_default ((d Int)) Bool (and (>= d 1) (<= d %d)))' % nD)
        self.header = '\n'.join(out)
        return self, 12

    def name_of(self, i):
        return self.rev.get(i, '?%d' % i)


MAXC = [160]


class Q:
    """Query builder: every table application gets its own variable (so the ite-chain tables are instantiated once per
    use instead of being nested by macro expansion)."""

    def __init__(self, depth=12):
        self.decls, self.asserts, self.n, self.depth = [], [], 0, depth
        self.used = set()

    def var(self, name):
        self.decls.append(name)
        return name

    def app(self, table, *args):
        self.n += 1
        v = 'v%d' % self.n
        self.decls.append(v)
        self.asserts.append('(= %s (%s %s))' % (v, table, ' '.join(args)))
        self.used.add(table)
        if table == 'lookup':
            # exact closed-world meaning of a lookup: descriptors of class c are the ids first(c) .. first(c)+count(c)-1
            self.used.update(('p_name', 'cls_first', 'cls_count'))
            c, n = args
            self.n += 1
            f, k = 'f%d' % self.n, 'k%d' % self.n
            self.decls += [f, k]
            self.asserts.append('(= %s (cls_first %s))' % (f, c))
            self.asserts.append('(= %s (cls_count %s))' % (k, c))
            absent = ' '.join('(or (>= %d %s) (not (= (p_name (+ %s %d)) %s)))' % (i, k, f, i, n) for i in range(MAXC[0]))
            self.asserts.append('(or (and (not (= %s 0)) (>= %s %s) (< %s (+ %s %s)) (= (p_name %s) %s)) (and (= %s 0) %s))' % (v, v, f, v, f, k, v, n, v, absent))
        return v

    def find(self, c, n):
        """descriptor id of property n looked up from class c through the superclass chain (0 if none)"""
        anc = [c]
        for _ in range(self.depth):
            anc.append(self.app('superclass', anc[-1]))
        hits = [self.app('lookup', a, n) for a in anc]
        body = '0'
        for a, h in reversed(list(zip(anc, hits))):
            body = '(ite (not (= %s 0)) %s (ite (= %s 0) 0 %s))' % (h, h, a, body) if False else '(ite (not (= %s 0)) %s %s)' % (h, h, body)
        self.n += 1
        v = 'v%d' % self.n
        self.decls.append(v)
        self.asserts.append('(= %s %s)' % (v, body))
        return v

    def top(self, c):
        a = c
        for _ in range(self.depth):
            a = self.app('superclass', a)
        return a


ENUM_T = VARIANT_TYPES.index('Enum') + 1


def queries(depth=12):
    """list of (id, description, Q, negated fact, witness vars)"""
    out = []

    def add(qid, desc, build):
        q = Q(depth)
        f, wit = build(q)
        out.append((qid, desc, q, f, wit))

    def z5a(q):
        c = q.var('c'); s = q.app('superclass', c)
        return '(and (is_class c) (not (= %s 0)) (not (is_class %s)))' % (s, s), ['c']
    add('Z5.superclass_exists', 'every superclass named by a class exists', z5a)

    def z5b(q):
        c = q.var('c'); t = q.top(c)
        return '(and (is_class c) (not (= %s 0)))' % t, ['c']
    add('Z5.chain_terminates', 'every superclass chain reaches a root within %d steps' % depth, z5b)

    def z6(q):
        p = q.var('p'); k = q.app('p_kind', p); cl = q.app('p_class', p); tg = q.app('p_target', p); t = q.app('lookup', cl, tg); tk = q.app('p_kind', t)
        return '(and (is_prop p) (= %s 1) (or (= %s 0) (not (= %s 0))))' % (k, t, tk), ['p']
    add('Z6.alias_target', 'every alias names a canonical property of the same class', z6)

    def z7(q):
        p = q.var('p'); sr = q.app('p_ser', p); cl = q.app('p_class', p); tg = q.app('p_target', p); t = q.app('lookup', cl, tg)
        return '(and (is_prop p) (= %s 2) (= %s 0))' % (sr, t), ['p']
    add('Z7.serializes_as_target', 'every serializes-as target exists in the same class', z7)

    def z8(q):
        p = q.var('p'); sr = q.app('p_ser', p); cl = q.app('p_class', p); tg = q.app('p_target', p); t = q.find(cl, tg)
        tk = q.app('p_kind', t); ts = q.app('p_ser', t)
        return '(and (is_prop p) (= %s 3) (or (= %s 0) (not (= %s 0)) (not (or (= %s 0) (= %s 2)))))' % (sr, t, tk, ts, ts), ['p']
    add('Z8.migration_target', 'every migration target resolves through the superclass chain to a canonical property that serializes (as itself or under another name)', z8)

    def z8b(q):
        p = q.var('p'); sr = q.app('p_ser', p); cl = q.app('p_class', p); tg = q.app('p_target', p); t = q.find(cl, tg)
        mo = q.app('p_migout', p); tdk = q.app('p_dkind', t); tdt = q.app('p_dtype', t); ts = q.app('p_ser', t)
        tcl = q.app('p_class', t); ttg = q.app('p_target', t); st = q.app('lookup', tcl, ttg); sdt = q.app('p_dtype', st)
        return ('(and (is_prop p) (= %s 3) (not (= %s 0)) (not (or (and (= %s 0) (= %s %s)) (and (= %s 1) (= %s %d)) (and (= %s 2) (= %s %s)))))'
                % (sr, t, tdk, tdt, mo, tdk, mo, ENUM_T, ts, sdt, mo)), ['p']
    add('Z8.migration_type', 'the migration output type is the target property type (Enum for enum-typed targets) or the type of its serialized form', z8b)

    def z9(q):
        p = q.var('p'); dk = q.app('p_dkind', p); dt = q.app('p_dtype', p); e = q.app('enum_exists', dt)
        return '(and (is_prop p) (= %s 1) (= %s 0))' % (dk, e), ['p']
    add('Z9.enum_exists', 'every enum a property refers to exists', z9)

    def z10(q):
        d = q.var('d'); cl = q.app('d_class', d); nm = q.app('d_name', d); t = q.find(cl, nm)
        return '(and (is_default d) (= %s 0))' % t, ['d']
    add('Z10.default_known', 'every default value belongs to a property known in the class chain', z10)

    def z10b(q):
        d = q.var('d'); cl = q.app('d_class', d); nm = q.app('d_name', d); t = q.find(cl, nm); dty = q.app('d_type', d)
        tdk = q.app('p_dkind', t); tdt = q.app('p_dtype', t); tk = q.app('p_kind', t); ts = q.app('p_ser', t)
        tcl = q.app('p_class', t); ttg = q.app('p_target', t); st = q.app('lookup', tcl, ttg); sdt = q.app('p_dtype', st)
        return ('(and (is_default d) (not (= %s 0)) (not (or (and (= %s 0) (= %s %s)) (and (= %s 1) (= %s %d)) (and (= %s 0) (= %s 2) (= %s %s)))))'
                % (t, tdk, tdt, dty, tdk, dty, ENUM_T, tk, ts, sdt, dty)), ['d']
    add('Z10.default_type', 'every default value has the declared type, Enum for enum-typed properties, or the type of the serialized form', z10b)

    def zk(q):
        p = q.var('p'); d = q.var('d'); dk = q.app('p_dkind', p); dt = q.app('p_dtype', p); dty = q.app('d_type', d)
        return '(or (and (is_prop p) (= %s 0) (= %s 99)) (and (is_default d) (= %s 98)))' % (dk, dt, dty), ['p', 'd']
    add('Z.known_types', 'every declared value type and default value type is a known Variant type', zk)
    return out


def run_solver(cmd, text, timeout):
    t = time.time()
    try:
        p = subprocess.run(cmd, input=text, stdout=subprocess.PIPE, stderr=subprocess.STDOUT, text=True, timeout=timeout)
        out = p.stdout
    except subprocess.TimeoutExpired:
        out = 'timeout'
    return out, time.time() - t


def bvify(text):
    return text


def decide(T, q, formula, witness, timeout=300, cross=True):
    """-> dict(z3=verdict, cvc5=verdict, model={var: int}, secs).  z3: logic ALL (its default tactic handles the
    UF + ground-fact tables best); cvc5: QF_UFLIA with the finite index domains spelled out as disjunctions."""
    tables = '\n'.join(T.parts[k] for k in sorted(q.used)) + '\n' + T.header
    decl = '\n'.join('(declare-const %s Int)' % d for d in q.decls)
    asserts = '\n'.join('(assert %s)' % a for a in q.asserts)
    core = tables + '\n' + decl + '\n' + asserts + '\n(assert %s)\n' % formula
    qm = '(set-logic ALL)\n' + core + '(check-sat)\n' + ''.join('(get-value (%s))\n' % d for d in witness)
    dom = []
    sizes = {'c': len(T.classes), 'p': len(T.props), 'd': len(T.defaults)}
    for wv in witness:
        dom.append('(assert (or %s))' % ' '.join('(= %s %d)' % (wv, i) for i in range(1, sizes[wv] + 1)))
    qc = '(set-logic QF_UFLIA)\n' + tables + '\n' + decl + '\n' + '\n'.join(dom) + '\n' + asserts + '\n(assert %s)\n(check-sat)\n' % formula
    z3o, t1 = run_solver([os.environ.get('VERIF_Z3', 'z3'), '-in', '-T:%d' % timeout], qm, timeout + 10)
    if cross:
        cvo, t2 = run_solver(['cvc5', '--lang', 'smt2', '--tlimit=%d' % (timeout * 1000)], qc, timeout + 10)
    else:
        cvo, t2 = 'skipped', 0.0

    def verdict(o):
        if '(error' in o and 'model is not available' not in o:
            return 'error'
        if 'interrupted by timeout' in o or o.strip() == 'timeout':
            return 'timeout'
        if o == 'skipped':
            return 'skipped'
        m = re.search(r'^(sat|unsat|unknown|timeout)', o, re.M)
        return m.group(1) if m else 'error'
    model = {}
    for m in re.finditer(r'\(\((\w+) (\(- \d+\)|-?\d+)\)\)', z3o):
        model[m.group(1)] = int(m.group(2).replace('(- ', '-').replace(')', ''))
    return dict(z3=verdict(z3o), cvc5=verdict(cvo), model=model, secs=t1 + t2, z3_s=t1, cvc5_s=t2, raw=z3o[-300:] if verdict(z3o) == 'error' else '')


def decide_enum(T, q, formula, var, n, timeout=900, solver=None, only=None):
    """Instance-wise decision in one incremental solver session: for every value k of the index variable the negated fact
    is checked with (= var k) asserted (push/pop).  Used where the symbolic-index query does not finish (the `find`
    chains); the verdicts are still the solver's, one per database entry."""
    tables = '\n'.join(T.parts[k] for k in sorted(q.used)) + '\n' + T.header
    decl = '\n'.join('(declare-const %s Int)' % d for d in q.decls)
    asserts = '\n'.join('(assert %s)' % a for a in q.asserts)
    ks = list(only) if only is not None else list(range(1, n + 1))
    body = ['(set-logic ALL)', tables, decl, asserts, '(assert %s)' % formula]
    for k in ks:
        body.append('(push)(assert (= %s %d))(check-sat)(pop)' % (var, k))
    cmd = solver or [os.environ.get('VERIF_Z3', 'z3'), '-in', '-T:%d' % timeout]
    out, dt = run_solver(cmd, '\n'.join(body) + '\n', timeout + 20)
    res = re.findall(r'^(sat|unsat|unknown)$', out, re.M)
    bad = [k for k, r in zip(ks, res) if r != 'unsat']
    ok = len(res) == len(ks) and '(error' not in out
    return dict(complete=ok, checked=len(res), offending=bad, secs=dt, raw=out[-300:] if not ok else '')


def decide_enum_parallel(T, q, formula, var, n, jobs=12, timeout=900, only=None):
    from concurrent.futures import ThreadPoolExecutor
    ks = list(only) if only is not None else list(range(1, n + 1))
    chunks = [ks[i::jobs] for i in range(jobs)]
    chunks = [c for c in chunks if c]
    t = time.time()
    with ThreadPoolExecutor(max_workers=len(chunks)) as ex:
        rs = list(ex.map(lambda c: decide_enum(T, q, formula, var, n, timeout, None, c), chunks))
    return dict(complete=all(r['complete'] for r in rs), checked=sum(r['checked'] for r in rs), offending=sorted(k for r in rs for k in r['offending']),
                secs=time.time() - t, raw=' | '.join(r['raw'] for r in rs if r['raw'])[:300])
